"""Per-property engines used by bin/check. The default engine runs the in-process monitors of
the `pv` binary in a checked and in a release build."""

# wall-clock budgets (s) handed to the monitor; they only ever cut a run short (cases not run are
# counted, the minimum observation requirement is scaled accordingly) and never decide a verdict.
# Quick workloads are sized by case counts (seconds on an idle machine); their budget is only a
# safety net for a heavily loaded machine.
QUICK_BUDGET = 1500
THOROUGH_BUDGET = 900


def default_engine(chk, prop, tier, seed, replay, t0):
    results = []
    budget = QUICK_BUDGET if tier == "quick" else THOROUGH_BUDGET
    extra = ["--replay", replay] if replay else []
    for tag, scale, share in (("checked", 1.0, 0.6), ("release", 0.5, 0.4)):
        if not chk.build(tag):
            results.append((tag, -1, None))
            continue
        rc, res = chk.run_pv(prop, tier, seed + (0 if tag == "checked" else 7919), tag, scale,
                             int(budget * share), extra)
        results.append((tag, rc, res))
    if tier == "thorough" and prop in MEMCHECK_SLICES and not replay:
        results.extend(memcheck_slices(chk, prop, seed))
    return chk.merge_and_report(prop, tier, seed, results, chk.ASSUME, t0)


# Secondary sanitizer layer (thorough tier): the release monitor binary re-run under valgrind
# memcheck on a small slice of the same workload, one process per seed (valgrind serialises
# threads). parol itself has no unsafe code; this watches the unsafe code of the dependencies the
# workload reaches (scnr2, syntree, hashbrown, regex-automata, ...). A memcheck report is a
# violation of the owning property's "does not crash / is lossless" reading; silence is reported as
# "no report on N executions", nothing more.
MEMCHECK_SLICES = {"C13": 0.004, "C14": 0.01, "C16": 0.01, "C17": 0.01, "C19": 0.01, "C26": 0.004, "C31": 0.002, "C32": 0.002}
MEMCHECK_PROCS = 12


def memcheck_slices(chk, prop, seed):
    import os, subprocess, json, shutil
    if not shutil.which("valgrind"):
        chk.log("note: valgrind not available, memcheck slice skipped")
        return []
    exe = os.path.join(chk.TARGET, "release", "pv")
    procs = []
    for i in range(MEMCHECK_PROCS):
        tag = f"memcheck{i}"
        out = os.path.join(chk.WORK, f"{prop}.{tag}.json")
        vglog = os.path.join(chk.WORK, f"{prop}.{tag}.vglog")
        for f in (out, vglog):
            if os.path.exists(f):
                os.remove(f)
        cmd = ["valgrind", "--error-exitcode=99", "--quiet", f"--log-file={vglog}", exe, prop, "thorough",
               "--seed", str(seed + 104729 * (i + 1)), "--build", tag, "--out", out,
               "--scale", str(MEMCHECK_SLICES[prop] / 20.0), "--budget-s", "400", "--shards", "1",
               "--case-limit-s", "900", "--light", "--known", chk.KNOWN]
        lf = open(os.path.join(chk.WORK, f"{prop}.{tag}.log"), "w")
        procs.append((tag, out, vglog, subprocess.Popen(cmd, cwd=chk.VERIF, env=chk.env(), stdout=lf, stderr=subprocess.STDOUT)))
    results = []
    for tag, out, vglog, p in procs:
        try:
            rc = p.wait(timeout=1500)
        except subprocess.TimeoutExpired:
            p.kill()
            rc = -999
        res = None
        if os.path.exists(out):
            try:
                res = json.load(open(out))
            except Exception:  # noqa
                res = None
        report = open(vglog).read() if os.path.exists(vglog) else ""
        if rc == 99 or "== Invalid" in report or "uninitialised" in report:
            res = res or {"evaluations": 0, "distinct_nontrivial": 0, "rule": "", "samples": [], "wall_s": 0}
            res.setdefault("violations", []).append({
                "signature": {"kind": "memcheck-report"},
                "what": "valgrind memcheck reported an error while the monitor workload ran: " + " ".join(report.split()[:60]),
                "witness": {"valgrind_log": vglog, "seed": seed + 104729 * (int(tag[8:]) + 1)}})
            rc = 1
        if res is not None:
            res["observed_too_little"] = False  # a slice is allowed to be small; the main builds carry the minimum
            if rc == 3:
                rc = 0
        chk.log(f"memcheck slice {tag}: rc={rc} evaluations={(res or {}).get('evaluations')}")
        if rc == -999 or res is None:
            chk.log(f"note: {tag} inconclusive (timeout or no result)")
            continue
        results.append((tag, rc, res))
    return results


def build_parol_ls(chk):
    """debug build of the language server from /repo's working tree, hooks on"""
    import os, subprocess, time
    e = chk.env()
    e["CARGO_TARGET_DIR"] = os.path.join(chk.TARGET, "ls")
    t = time.time()
    with open(os.path.join(chk.WORK, "build.parol-ls.log"), "w") as lf:
        r = subprocess.run(["cargo", "build", "--offline", "-p", "parol-ls", "--manifest-path", "/repo/Cargo.toml"],
                           cwd="/repo", env=e, stdout=lf, stderr=subprocess.STDOUT)
    chk.log(f"build parol-ls: rc={r.returncode} {time.time() - t:.1f}s")
    return r.returncode == 0


def tsan_slice(chk, prop, seed):
    """C29 thorough only: the same histories against a ThreadSanitizer build of parol-ls (the one
    place in the repository where state crosses threads). A TSan report is a violation; a server that
    cannot be built or run instrumented makes the slice inconclusive (noted, not failed)."""
    import os, subprocess, time, glob, json
    e = chk.env()
    e["CARGO_TARGET_DIR"] = os.path.join(chk.TARGET, "ls-tsan")
    e["RUSTFLAGS"] = "-Zsanitizer=thread --cfg parol_verif"
    t = time.time()
    with open(os.path.join(chk.WORK, "build.parol-ls-tsan.log"), "w") as lf:
        try:
            r = subprocess.run(["cargo", "+nightly", "build", "-Zbuild-std", "--target", "x86_64-unknown-linux-gnu",
                                "--offline", "-p", "parol-ls", "--manifest-path", "/repo/Cargo.toml"],
                               cwd="/repo", env=e, stdout=lf, stderr=subprocess.STDOUT, timeout=3600)
            rc = r.returncode
        except subprocess.TimeoutExpired:
            rc = -999
    chk.log(f"build parol-ls (ThreadSanitizer): rc={rc} {time.time() - t:.1f}s")
    exe = os.path.join(chk.TARGET, "ls-tsan", "x86_64-unknown-linux-gnu", "debug", "parol-ls")
    if rc != 0 or not os.path.exists(exe):
        chk.log("note: ThreadSanitizer build of parol-ls not available; slice skipped (inconclusive)")
        return []
    for f in glob.glob(os.path.join(chk.WORK, "C29.tsanlog*")):
        os.remove(f)
    os.environ["PV_PAROL_LS"] = exe
    os.environ["TSAN_OPTIONS"] = f"halt_on_error=0 exitcode=0 log_path={os.path.join(chk.WORK, 'C29.tsanlog')}"
    try:
        rc, res = chk.run_pv(prop, "thorough", seed + 15485863, "release", 0.15, 600, ["--case-limit-s", "600"])
    finally:
        os.environ.pop("PV_PAROL_LS", None)
        os.environ.pop("TSAN_OPTIONS", None)
    out = os.path.join(chk.WORK, f"{prop}.release.json")
    tagged = os.path.join(chk.WORK, f"{prop}.tsan.json")
    if os.path.exists(out):
        os.replace(out, tagged)
    if res is None:
        chk.log("note: ThreadSanitizer slice produced no result (inconclusive)")
        return []
    reports = []
    for f in sorted(glob.glob(os.path.join(chk.WORK, "C29.tsanlog*"))):
        txt = open(f, errors="replace").read()
        if "WARNING: ThreadSanitizer" in txt:
            reports.append((f, txt))
    res["observed_too_little"] = False
    if rc == 3:
        rc = 0
    res.setdefault("extra", {})["tsan_reports"] = len(reports)
    for f, txt in reports[:3]:
        res.setdefault("violations", []).append({
            "signature": {"kind": "thread-sanitizer-report"},
            "what": "ThreadSanitizer reported a data race in parol-ls while the C29 histories ran: " + " ".join(txt.split()[:80]),
            "witness": {"tsan_log": f}})
        rc = 1
    chk.log(f"ThreadSanitizer slice: rc={rc} evaluations={res.get('evaluations')} reports={len(reports)}")
    return [("tsan", rc, res)]


def lsp_engine(chk, prop, tier, seed, replay, t0):
    if not build_parol_ls(chk):
        chk.log("BROKEN: parol-ls does not build")
        return 3
    if prop == "C29" and tier == "thorough" and not replay:
        results = []
        for tag, scale, share in (("checked", 1.0, 0.6), ("release", 0.5, 0.4)):
            if not chk.build(tag):
                results.append((tag, -1, None))
                continue
            rc, res = chk.run_pv(prop, tier, seed + (0 if tag == "checked" else 7919), tag, scale, int(THOROUGH_BUDGET * share), [])
            if tag == "release":
                # keep the release result under its own name: the TSan slice reuses the release monitor
                import os
                src = os.path.join(chk.WORK, f"{prop}.release.json")
                if os.path.exists(src):
                    os.replace(src, os.path.join(chk.WORK, f"{prop}.release-main.json"))
            results.append((tag, rc, res))
        results.extend(tsan_slice(chk, prop, seed))
        return chk.merge_and_report(prop, tier, seed, results, chk.ASSUME, t0)
    return default_engine(chk, prop, tier, seed, replay, t0)


ENGINES = {p: lsp_engine for p in ("C27", "C28", "C29", "C30", "C34")}
