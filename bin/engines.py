"""Per-property engines used by bin/check. The default engine runs the in-process monitors of
the `pv` binary in a checked and in a release build."""

QUICK_BUDGET = 75
THOROUGH_BUDGET = 600


def default_engine(chk, prop, tier, seed, replay, t0):
    results = []
    budget = QUICK_BUDGET if tier == "quick" else THOROUGH_BUDGET
    extra = ["--replay", replay] if replay else []
    for tag, scale, share in (("checked", 1.0, 0.6), ("release", 0.5, 0.4)):
        if not chk.build(tag):
            results.append((tag, -1, None))
            continue
        rc, res = chk.run_pv(prop, tier, seed + (0 if tag == "checked" else 7919), tag, scale,
                             int(budget * share), extra)
        results.append((tag, rc, res))
    return chk.merge_and_report(prop, tier, seed, results, chk.ASSUME, t0)


ENGINES = {}
