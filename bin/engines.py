"""Per-property engines used by bin/check. The default engine runs the in-process monitors of
the `pv` binary in a checked and in a release build."""

QUICK_BUDGET = 75
THOROUGH_BUDGET = 600


def default_engine(chk, prop, tier, seed, replay, t0):
    results = []
    budget = QUICK_BUDGET if tier == "quick" else THOROUGH_BUDGET
    extra = ["--replay", replay] if replay else []
    for tag, scale, share in (("checked", 1.0, 0.6), ("release", 0.5, 0.4)):
        if not chk.build(tag):
            results.append((tag, -1, None))
            continue
        rc, res = chk.run_pv(prop, tier, seed + (0 if tag == "checked" else 7919), tag, scale,
                             int(budget * share), extra)
        results.append((tag, rc, res))
    return chk.merge_and_report(prop, tier, seed, results, chk.ASSUME, t0)


def build_parol_ls(chk):
    """debug build of the language server from /repo's working tree, hooks on"""
    import os, subprocess, time
    e = chk.env()
    e["CARGO_TARGET_DIR"] = os.path.join(chk.TARGET, "ls")
    t = time.time()
    with open(os.path.join(chk.WORK, "build.parol-ls.log"), "w") as lf:
        r = subprocess.run(["cargo", "build", "--offline", "-p", "parol-ls", "--manifest-path", "/repo/Cargo.toml"],
                           cwd="/repo", env=e, stdout=lf, stderr=subprocess.STDOUT)
    chk.log(f"build parol-ls: rc={r.returncode} {time.time() - t:.1f}s")
    return r.returncode == 0


def lsp_engine(chk, prop, tier, seed, replay, t0):
    if not build_parol_ls(chk):
        chk.log("BROKEN: parol-ls does not build")
        return 3
    return default_engine(chk, prop, tier, seed, replay, t0)


ENGINES = {p: lsp_engine for p in ("C27", "C28", "C29", "C30", "C34")}
