//! C29 - Language-server diagnostics reflect the latest document version.

use super::lspcommon::*;
use crate::ev::*;
use crate::gram::GType;
use crate::lsp::Lsp;
use crate::prng::{Rng, hash_str};
use crate::run::guarded;
use crate::wl;
use serde_json::{Value, json};
use std::time::{Duration, Instant};

#[derive(Clone, Debug)]
struct Doc {
    text: String,
    class: &'static str,
}

/// candidate texts: fine, not LL(k) (background error), LALR with conflicts (background
/// warning), syntax error (synchronous error)
fn gen_doc(rng: &mut Rng, class: &'static str) -> Option<Doc> {
    for _ in 0..25 {
        let text = match class {
            "fine" => {
                let p = wl::Profile { p_guard: 100, n_nts: (1, 3), ..wl::Profile::base("fine", GType::LL) };
                wl::gen_grammar(rng, &p).to_par()
            }
            "not-llk" => {
                let p = wl::Profile { p_guard: 0, n_terms: (2, 2), n_nts: (2, 3), p_ebnf: 20, nest: 1, max_alts: 3, max_seq: 3, ..wl::Profile::base("not-llk", GType::LL) };
                wl::gen_grammar(rng, &p).to_par()
            }
            "lalr-conflicts" => wl::gen_non_lalr_template(rng).to_par(),
            "sync-semantic" => {
                // a diagnostic of the synchronous part that is placed at a definition's position:
                // left recursion of the start symbol or an unreachable non-terminal
                let p = wl::Profile { p_guard: 100, n_nts: (1, 3), p_shuffle: 0, ..wl::Profile::base("fine", GType::LL) };
                let t = wl::gen_grammar(rng, &p).to_par();
                if rng.chance(1, 2) { t.replacen("\nS:", "\nS: S 'a' |", 1) } else { format!("{t}Unreach: 'a';\n") }
            }
            _ => {
                if rng.chance(1, 3) {
                    "%start S\n%%\nS: 'a' | ;;\n".to_string()
                } else {
                    // a syntax error after at least one complete production
                    let p = wl::Profile { p_guard: 100, n_nts: (2, 4), p_shuffle: 0, ..wl::Profile::base("fine", GType::LL) };
                    let t = wl::gen_grammar(rng, &p).to_par();
                    let t = t.trim_end().to_string();
                    match rng.below(3) {
                        0 => t.trim_end_matches(';').to_string() + "\n",
                        1 => format!("{t};\n"),
                        _ => format!("{t}\nX: 'a' 'b'\nY: ;\n"),
                    }
                }
            }
        };
        // blank and comment lines in front of the text: positions differ between versions
        let text = { let n = rng.below(4); format!("{}{}", "// shift\n".repeat(n), text) };
        if class == "syntax-error" {
            return Some(Doc { text, class });
        }
        if class == "sync-semantic" {
            let rejected_after_parse = matches!(guarded(|| crate::inst::front(&text)), Ok(Err(e)) if matches!(e.stage, crate::inst::Stage::Transform));
            if rejected_after_parse {
                return Some(Doc { text, class });
            }
            continue;
        }
        // classify with parol itself (in the harness process) so that the class is what we think;
        // the server is an unoptimised build: keep only texts whose analysis is cheap here
        let tcls = Instant::now();
        let verdict = guarded(|| {
            let (_, gc) = crate::inst::front(&text).map_err(|e| format!("{:?}", e.stage))?;
            match gc.grammar_type {
                parol::parser::parol_grammar::GrammarType::LLK => Ok::<&str, String>(if parol::calculate_lookahead_dfas(&gc, 3).is_ok() { "fine" } else { "not-llk" }),
                parol::parser::parol_grammar::GrammarType::LALR1 => match parol::calculate_lalr1_parse_table(&gc) {
                    Ok((_, c)) if !c.is_empty() => Ok("lalr-conflicts"),
                    Ok(_) => Ok("fine"),
                    Err(_) => Ok("lalr-error"),
                },
            }
        });
        if tcls.elapsed() > Duration::from_millis(4) {
            continue;
        }
        if let Ok(Ok(v)) = verdict {
            if v == class {
                return Some(Doc { text, class });
            }
        }
    }
    None
}

fn diag_key(d: &Value) -> Vec<String> {
    // the message embeds the document's file name: cut it out ("at /c29_7.par:3:11" -> "at :3:11")
    let clean = |m: &str| -> String {
        let mut out = String::new();
        let mut rest = m;
        while let Some(i) = rest.find("/c29_") {
            out.push_str(&rest[..i]);
            let tail = &rest[i..];
            let j = tail.find(".par").map(|j| j + 4).unwrap_or(tail.len());
            rest = &tail[j..];
        }
        out.push_str(rest);
        out
    };
    let mut v: Vec<String> = d.as_array().map(|a| a.iter().map(|x| format!("{}|{}|{}|{}", x["severity"], x["code"], clean(x["message"].as_str().unwrap_or("").lines().next().unwrap_or("")), x["range"])).collect()).unwrap_or_default();
    v.sort();
    v
}

struct Obs {
    publishes: Vec<(i64, Value)>,
    done: Vec<i64>,
    reached: Vec<(i64, String)>,
    /// versions for which the server announced a background analysis (verif/spawned, sent by the
    /// main loop before the synchronous publish of that version)
    spawned: Vec<i64>,
}

fn pump(l: &mut Lsp, uri: &str, obs: &mut Obs, wait_ms: u64) -> Result<bool, String> {
    match l.next_message(wait_ms) {
        Err(e) => Err(format!("{e:?}")),
        Ok(None) => Ok(false),
        Ok(Some(m)) => {
            match m["method"].as_str() {
                Some("textDocument/publishDiagnostics") if m["params"]["uri"] == uri => {
                    obs.publishes.push((m["params"]["version"].as_i64().unwrap_or(-1), m["params"]["diagnostics"].clone()));
                }
                Some("verif/spawned") if m["params"]["uri"] == uri => obs.spawned.push(m["params"]["version"].as_i64().unwrap_or(-1)),
                Some("verif/done") if m["params"]["uri"] == uri => obs.done.push(m["params"]["version"].as_i64().unwrap_or(-1)),
                Some("verif/reached") if m["params"]["uri"] == uri => obs.reached.push((m["params"]["version"].as_i64().unwrap_or(-1), m["params"]["phase"].as_str().unwrap_or("").to_string())),
                _ => {}
            }
            Ok(true)
        }
    }
}

fn wait_until(l: &mut Lsp, uri: &str, obs: &mut Obs, max_ms: u64, cond: impl Fn(&Obs) -> bool) -> Result<bool, String> {
    let end = Instant::now() + Duration::from_millis(max_ms);
    while !cond(obs) {
        if Instant::now() > end {
            return Ok(false);
        }
        pump(l, uri, obs, 50)?;
    }
    Ok(true)
}

/// Diagnostics of `doc` alone: fresh document, gated so that the synchronous publish comes
/// first and the background result (if any) last.
fn reference(l: &mut Lsp, doc: &Doc, uri: &str) -> Result<Option<Vec<String>>, String> {
    l.notify("verif/gating", json!({"on": true}));
    l.open(uri, 1, &doc.text);
    let mut obs = Obs { publishes: vec![], done: vec![], reached: vec![], spawned: vec![] };
    if !wait_until(l, uri, &mut obs, 10000, |o| !o.publishes.is_empty())? {
        return Ok(None);
    }
    // a background analysis exists iff the server announced one (the announcement precedes the
    // synchronous publish on the same channel)
    if !obs.spawned.is_empty() {
        if !wait_until(l, uri, &mut obs, 60000, |o| o.reached.iter().any(|r| r.1 == "Start"))? {
            return Ok(None);
        }
        l.notify("verif/release", json!({"uri": uri, "version": 1, "phase": "Start"}));
        l.notify("verif/release", json!({"uri": uri, "version": 1, "phase": "Publish"}));
        if !wait_until(l, uri, &mut obs, 60000, |o| !o.done.is_empty())? {
            return Ok(None);
        }
    }
    l.notify("verif/gating", json!({"on": false}));
    l.close(uri);
    Ok(obs.publishes.last().map(|p| diag_key(&p.1)))
}

pub fn run(ctx: &Ctx) -> i32 {
    let t0 = Instant::now();
    let quick = ctx.quick();
    let n = ctx.n(200, 4000);
    let rep = run_sharded(ctx, "c29", n, move |rng, i, rep| {
        let nver = rng.range(2, if i % 2 == 0 { 3 } else { 4 });
        let classes = ["fine", "not-llk", "lalr-conflicts", "syntax-error", "sync-semantic", "sync-semantic"];
        let mut docs = vec![];
        for v in 0..nver {
            // bias: an expensive erroneous version followed by a fine one is the classic stale case
            let c = if v + 1 == nver && rng.chance(1, 2) { "fine" } else if v == 0 && rng.chance(1, 2) { "not-llk" } else { *rng.pick(&classes) };
            match gen_doc(rng, c) {
                Some(d) => docs.push(d),
                None => return,
            }
        }
        let gated = i % 2 == 0;
        if std::env::var("PV_DEBUG").is_ok() {
            eprintln!("CASE {i} gated={gated} classes={:?}", docs.iter().map(|d| d.class).collect::<Vec<_>>());
            for d in &docs { eprintln!("-----\n{}", d.text); }
        }
        let uri = format!("file:///c29_{i}.par");
        let ruri = format!("file:///c29_{i}_ref.par");
        let gap_ms = if gated { 0 } else { *rng.pick(&[0u64, 0, 1, 5, 20]) };
        let docs2 = docs.clone();
        let choices: Vec<usize> = (0..64).map(|_| rng.below(1 << 20)).collect();
        let trace: std::cell::RefCell<Vec<String>> = std::cell::RefCell::new(vec![]);
        let r = with_session(3, |l| -> Result<(Option<Vec<String>>, Obs, usize), String> {
            let tdbg = Instant::now();
            let refd = reference(l, docs2.last().unwrap(), &ruri)?;
            if std::env::var("PV_DEBUG").is_ok() { eprintln!("reference done after {} ms: {refd:?}", tdbg.elapsed().as_millis()); }
            let mut obs = Obs { publishes: vec![], done: vec![], reached: vec![], spawned: vec![] };
            let nv = docs2.len();
            let expected_threads;
            if gated {
                // Controlled schedule: edits and the two gates of every background analysis (before
                // the analysis starts, before it publishes) are interleaved in a random order. At
                // each step one enabled action is taken and its deterministic consequence awaited
                // (events only; the generous limits only ever yield "inconclusive").
                l.notify("verif/gating", json!({"on": true}));
                let mut next = 0usize;
                let mut start_rel: Vec<i64> = vec![];
                let mut publish_rel: Vec<i64> = vec![];
                let mut step = 0usize;
                loop {
                    #[derive(Clone, Copy, Debug)]
                    enum Act {
                        Send,
                        RelStart(i64),
                        RelPublish(i64),
                    }
                    let mut acts: Vec<Act> = vec![];
                    if next < nv {
                        acts.push(Act::Send);
                        // bias towards edits arriving while analyses are in flight
                        acts.push(Act::Send);
                    }
                    for v in &obs.spawned {
                        if obs.reached.iter().any(|r| r.0 == *v && r.1 == "Start") && !start_rel.contains(v) {
                            acts.push(Act::RelStart(*v));
                        }
                        if obs.reached.iter().any(|r| r.0 == *v && r.1 == "Publish") && !publish_rel.contains(v) {
                            acts.push(Act::RelPublish(*v));
                        }
                    }
                    if acts.is_empty() {
                        break;
                    }
                    let act = acts[choices[step % choices.len()] % acts.len()];
                    step += 1;
                    match act {
                        Act::Send => {
                            let v = next as i64 + 1;
                            if next == 0 {
                                l.open(&uri, 1, &docs2[0].text);
                            } else {
                                l.change(&uri, v, &docs2[next].text);
                            }
                            next += 1;
                            trace.borrow_mut().push(format!("edit{v}"));
                            if !wait_until(l, &uri, &mut obs, 60000, |o| o.publishes.iter().any(|p| p.0 == v))? {
                                return Err("TIMEOUT waiting for a synchronous publish".into());
                            }
                            if obs.spawned.contains(&v) && !wait_until(l, &uri, &mut obs, 60000, |o| o.reached.iter().any(|r| r.0 == v && r.1 == "Start"))? {
                                return Err("TIMEOUT waiting for an analysis to reach its start gate".into());
                            }
                        }
                        Act::RelStart(v) => {
                            start_rel.push(v);
                            trace.borrow_mut().push(format!("start{v}"));
                            l.notify("verif/release", json!({"uri": uri, "version": v, "phase": "Start"}));
                            if !wait_until(l, &uri, &mut obs, 90000, |o| o.done.contains(&v) || o.reached.iter().any(|r| r.0 == v && r.1 == "Publish"))? {
                                return Err("TIMEOUT waiting for a started analysis".into());
                            }
                        }
                        Act::RelPublish(v) => {
                            publish_rel.push(v);
                            trace.borrow_mut().push(format!("publish{v}"));
                            l.notify("verif/release", json!({"uri": uri, "version": v, "phase": "Publish"}));
                            if !wait_until(l, &uri, &mut obs, 60000, |o| o.done.contains(&v))? {
                                return Err("TIMEOUT waiting for a released analysis".into());
                            }
                        }
                    }
                }
                expected_threads = obs.spawned.len();
                l.notify("verif/gating", json!({"on": false}));
            } else {
                for (vi, d) in docs2.iter().enumerate() {
                    if vi == 0 {
                        l.open(&uri, 1, &d.text);
                    } else {
                        l.change(&uri, vi as i64 + 1, &d.text);
                    }
                    if gap_ms > 0 {
                        std::thread::sleep(Duration::from_millis(gap_ms));
                    }
                }
                // every version gets exactly one synchronous publish; the set of background analyses
                // is known exactly (one verif/spawned per analysis, sent before the synchronous publish
                // of its version); quiescence = every announced analysis reported done (its publish,
                // if any, precedes verif/done on the same channel)
                if !wait_until(l, &uri, &mut obs, 60000, |o| (1..=nv as i64).all(|v| o.publishes.iter().any(|p| p.0 == v)))? {
                    return Err("TIMEOUT waiting for synchronous publishes".into());
                }
                let spawned: Vec<i64> = obs.spawned.clone();
                expected_threads = spawned.len();
                if !wait_until(l, &uri, &mut obs, 90000, |o| spawned.iter().all(|v| o.done.contains(v)))? {
                    return Err("TIMEOUT waiting for quiescence".into());
                }
            }
            let _ = pump(l, &uri, &mut obs, 30);
            l.close(&uri);
            if std::env::var("PV_DEBUG").is_ok() { eprintln!("history finished after {} ms: publishes {:?} done {:?}", tdbg.elapsed().as_millis(), obs.publishes.iter().map(|p| p.0).collect::<Vec<_>>(), obs.done); }
            Ok((refd, obs, expected_threads))
        });
        rep.eval();
        let (refd, obs, nthreads) = match r {
            Err(e) => {
                rep.inconclusive(&format!("no server session: {}", truncate(&e, 60)));
                return;
            }
            Ok(Err(e)) if e.starts_with("TIMEOUT") => {
                rep.inconclusive(&e);
                drop_session();
                return;
            }
            Ok(Err(e)) => {
                if e.contains("Exited") {
                    rep.violation(json!({"kind": "server-crash"}), format!("language server died during an open/change history: {}", truncate(&e, 300)), json!({"history": docs.iter().map(|d| d.class).collect::<Vec<_>>(), "texts": docs.iter().map(|d| d.text.clone()).collect::<Vec<_>>()}));
                } else {
                    rep.inconclusive(&truncate(&e, 60));
                }
                drop_session();
                return;
            }
            Ok(Ok(x)) => x,
        };
        let _ = nthreads;
        let Some(refd) = refd else {
            rep.inconclusive("reference diagnostics not obtainable");
            return;
        };
        let classes_s: Vec<&str> = docs.iter().map(|d| d.class).collect();
        let arrival: Vec<String> = obs.publishes.iter().map(|p| format!("v{}:{}", p.0, diag_key(&p.1).len())).collect();
        let last = obs.publishes.last().cloned().unwrap_or((-1, Value::Null));
        let finalv = docs.len() as i64;
        let wit = || json!({"schedule": if gated { "gated" } else { "natural" }, "schedule_trace": trace.borrow().clone(), "gap_ms": gap_ms, "history_classes": classes_s, "arrival_order": arrival, "final_version": finalv,
            "last_published": {"version": last.0, "diagnostics": diag_key(&last.1)}, "reference_diagnostics_of_final_text": refd, "texts": docs.iter().map(|d| d.text.clone()).collect::<Vec<_>>()});
        if last.0 != finalv {
            rep.violation(json!({"kind": "last-diagnostics-of-stale-version"}), format!("after all analyses finished the last published diagnostics belong to version {} but the document is at version {finalv}", last.0), wit());
        } else if diag_key(&last.1) != refd {
            rep.violation(json!({"kind": "last-diagnostics-differ-from-final-text"}), "the last published diagnostics carry the final version but are not those of the final text alone", wit());
        }
        rep.count(&format!("interleaving_{}", arrival.join(",")));
        rep.nontrivial_h(hash_str(&arrival.join(",")) ^ hash_str(&classes_s.join(",")) ^ hash_str(&format!("{:?}{gated}", trace.borrow())));
        if i % 25 == 0 {
            rep.sample(json!({"schedule": if gated { "gated" } else { "natural" }, "history_classes": classes_s, "schedule_trace": trace.borrow().clone(), "arrival_order": arrival, "reference": refd}));
        }
    });
    // fold the per-interleaving counters into one number
    let mut rep = rep;
    let inter: Vec<String> = rep.counters.keys().filter(|k| k.starts_with("interleaving_")).cloned().collect();
    let n_inter = inter.len() as u64;
    for k in inter {
        rep.counters.remove(&k);
    }
    rep.count_n("distinct_arrival_interleavings", n_inter);
    let rule = "case = open/change history of 2-4 versions of one document whose texts are drawn from {fine, not LL(3) (background error), LALR with conflicts (background warning), syntax error after some complete productions (synchronous error), left-recursive / unreachable non-terminal (synchronous diagnostic placed at a definition)}, each shifted by 0-3 leading comment lines, against the real parol-ls over stdio; schedules: controlled (cfg(parol_verif) gates hold every background analysis before it starts and before it publishes; edits, start releases and publish releases are interleaved in a random order, so that edits arrive before, during and after an analysis; every step is awaited through events: synchronous publish, verif/spawned, verif/reached, verif/done) and natural (no gating, 0-20 ms gaps; quiescence = every analysis announced by verif/spawned reported verif/done - events only, wall-clock limits yield inconclusive); checker over the recorded message log: the last publishDiagnostics for the document must carry the final version and equal the reference diagnostics of the final text alone (fresh document, gated so that the background result comes last); distinct by (history classes, schedule, release order, arrival interleaving)";
    let min = if quick { 40 } else { 600 };
    finish(ctx, rep, rule, (min as f64 * ctx.scale) as u64, json!({}), t0.elapsed().as_secs_f64())
}
