//! O-par-fp: semantic fingerprint of a GrammarConfig (what PAR syntax can express; no
//! locations, no indices, no attributes that only canonicalization creates).

use parol::parser::parol_grammar::ScannerStateSwitch;
use parol::{GrammarConfig, Symbol, SymbolAttribute, Terminal};
use serde_json::{Value, json};

fn term_json(t: &Terminal, gc: &GrammarConfig) -> Value {
    match t {
        Terminal::Trm(text, kind, states, attr, utype, member, la) => {
            let mut st: Vec<String> = states
                .iter()
                .map(|s| gc.scanner_configurations.get(*s).map(|c| c.scanner_name.clone()).unwrap_or_else(|| format!("#{s}")))
                .collect();
            st.sort();
            json!({"t": text, "kind": format!("{kind:?}"), "states": st, "clipped": *attr == SymbolAttribute::Clipped,
                   "type": utype.as_ref().map(|u| u.to_string()), "member": member,
                   "la": la.as_ref().map(|l| json!({"pos": l.is_positive, "pat": l.pattern, "kind": format!("{:?}", l.kind)}))})
        }
        Terminal::Eps => json!("eps"),
        Terminal::End => json!("end"),
    }
}

/// identity of the terminal with the given index in this configuration
fn terminal_identity(gc: &GrammarConfig, index: u16) -> Value {
    let ts = gc.cfg.get_ordered_terminals();
    match ts.get((index as usize).wrapping_sub(5)) {
        Some((t, k, la, _)) => json!({"t": t, "raw": matches!(k, parol::TerminalKind::Raw), "la": la.as_ref().map(|l| json!({"pos": l.is_positive, "pat": l.pattern}))}),
        None => json!({"unknown_index": index}),
    }
}

pub fn fingerprint(gc: &GrammarConfig, with_productions: bool) -> Value {
    let prods: Vec<Value> = gc
        .cfg
        .pr
        .iter()
        .map(|p| {
            let rhs: Vec<Value> = p
                .get_r()
                .iter()
                .map(|s| match s {
                    Symbol::N(n, attr, utype, member) => json!({"n": n, "clipped": *attr == SymbolAttribute::Clipped, "type": utype.as_ref().map(|u| u.to_string()), "member": member}),
                    Symbol::T(t) => term_json(t, gc),
                    _ => json!("?"),
                })
                .collect();
            json!({"lhs": p.get_n(), "rhs": rhs})
        })
        .collect();
    let mut user_types = gc.user_type_defs.clone();
    user_types.sort();
    let mut nt_types = gc.nt_type_defs.clone();
    nt_types.sort();
    let scanners: Vec<Value> = gc
        .scanner_configurations
        .iter()
        .map(|s| {
            let mut skip: Vec<String> = s.skip_tokens.iter().map(|i| terminal_identity(gc, *i).to_string()).collect();
            skip.sort();
            let mut trans: Vec<String> = s
                .transitions
                .iter()
                .map(|(i, sw)| {
                    let t = match sw {
                        ScannerStateSwitch::Switch(n, _) => format!("enter {n}"),
                        ScannerStateSwitch::SwitchPush(n, _) => format!("push {n}"),
                        ScannerStateSwitch::SwitchPop(_) => "pop".to_string(),
                    };
                    format!("{} -> {t}", terminal_identity(gc, *i))
                })
                .collect();
            trans.sort();
            json!({"name": s.scanner_name, "line_comments": s.line_comments, "block_comments": s.block_comments, "auto_newline": s.auto_newline,
                   "auto_ws": s.auto_ws, "allow_unmatched": s.allow_unmatched, "skip": skip, "transitions": trans})
        })
        .collect();
    json!({
        "start": gc.cfg.st,
        "title": gc.title,
        "comment": gc.comment,
        "grammar_type": format!("{:?}", gc.grammar_type),
        "user_types": user_types,
        "nt_types": nt_types,
        "t_type": gc.t_type_def,
        "productions": if with_productions { json!(prods) } else { Value::Null },
        "scanners": scanners,
    })
}

/// first differing top-level key
pub fn first_difference(a: &Value, b: &Value) -> Option<String> {
    let (ao, bo) = (a.as_object()?, b.as_object()?);
    for (k, v) in ao {
        if bo.get(k) != Some(v) {
            if k == "productions" {
                if let (Some(x), Some(y)) = (v.as_array(), bo.get(k).and_then(|y| y.as_array())) {
                    if x.len() != y.len() {
                        return Some(format!("productions: {} vs {}", x.len(), y.len()));
                    }
                    for (i, (p, q)) in x.iter().zip(y.iter()).enumerate() {
                        if p != q {
                            return Some(format!("production {i}: {p} vs {q}"));
                        }
                    }
                }
            }
            if k == "scanners" {
                if let (Some(x), Some(y)) = (v.as_array(), bo.get(k).and_then(|y| y.as_array())) {
                    for (i, (p, q)) in x.iter().zip(y.iter()).enumerate() {
                        if p != q {
                            if let (Some(po), Some(qo)) = (p.as_object(), q.as_object()) {
                                for (kk, vv) in po {
                                    if qo.get(kk) != Some(vv) {
                                        return Some(format!("scanner {i} {kk}: {vv} vs {}", qo.get(kk).cloned().unwrap_or(Value::Null)));
                                    }
                                }
                            }
                        }
                    }
                    if x.len() != y.len() {
                        return Some(format!("scanner states: {} vs {}", x.len(), y.len()));
                    }
                }
            }
            return Some(format!("{k}: {v} vs {}", bo.get(k).cloned().unwrap_or(Value::Null)));
        }
    }
    None
}
