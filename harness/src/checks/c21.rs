//! C21 - Generated parser source and export model encode the analysis faithfully.

use super::common::*;
use crate::ev::*;
use crate::inst::{GenCfg, LrAct};
use crate::prng::hash_str;
use crate::run::guarded;
use crate::wl;
use crate::wlscan::*;
use parol::generators::generate_terminal_names;
use parol::{LRAction, Symbol, calculate_lalr1_parse_table};
use serde_json::{Value, json};
use std::time::Instant;

fn u(v: &Value) -> usize {
    v.as_u64().unwrap_or(u64::MAX) as usize
}

pub fn check_encoding(c: &Case, rep: &mut Report) {
    let t = &c.built.tables;
    let m = &c.built.model;
    let gc = &c.built.gc;
    let mut bad = |rep: &mut Report, kind: &str, what: String| {
        rep.violation(json!({"kind": kind}), what.clone(), json!({"case": case_json(c), "detail": what}));
    };
    // --- names
    let mnts: Vec<String> = m["non_terminal_names"].as_array().map(|a| a.iter().map(|x| x.as_str().unwrap_or("").to_string()).collect()).unwrap_or_default();
    let mut want_nts: Vec<String> = gc.cfg.get_non_terminal_set().into_iter().collect();
    want_nts.sort();
    if t.non_terminals != mnts || mnts != want_nts {
        bad(rep, "non-terminal-names", format!("NON_TERMINALS {:?}, export model {:?}, grammar {:?}", t.non_terminals, mnts, want_nts));
        return;
    }
    let nnt = mnts.len();
    let want_names = generate_terminal_names(gc);
    if t.terminal_names != want_names {
        bad(rep, "terminal-names", format!("TERMINAL_NAMES {:?} differ from generate_terminal_names {:?}", t.terminal_names, want_names));
    }
    let nterm = t.terminal_names.len();
    // --- start symbol
    let want_start = mnts.iter().position(|n| *n == gc.cfg.st).unwrap_or(usize::MAX);
    if t.start_index != want_start || u(&m["start_symbol_index"]) != want_start {
        bad(rep, "start-index", format!("start index: source {}, model {}, grammar start symbol {} has index {want_start}", t.start_index, m["start_symbol_index"], gc.cfg.st));
    }
    // --- productions
    let mprods = m["productions"].as_array().cloned().unwrap_or_default();
    let nprods = gc.cfg.pr.len();
    let nsrc = if t.is_lr { t.lr_productions.len() } else { t.ll_productions.len() };
    if mprods.len() != nprods || nsrc != nprods {
        bad(rep, "production-count", format!("{} productions in the grammar, {} in the export model, {} in the source", nprods, mprods.len(), nsrc));
        return;
    }
    let dts = m["production_datatypes"].as_array().cloned().unwrap_or_default();
    // the index a production may use for a terminal is the one the scanner table of the same export
    // model assigns to the terminal with that identity (text, raw or not, lookahead) - no numbering
    // scheme is assumed, only agreement between the parts
    let raw_kind = |v: &Value| v.as_str() == Some("Raw");
    let ident: Vec<(usize, (String, bool, Option<(bool, String, bool)>))> = m["scanner"]["terminals"]
        .as_array()
        .map(|a| {
            a.iter()
                .map(|t| {
                    let la = if t["lookahead"].is_null() { None } else { Some((t["lookahead"]["is_positive"].as_bool().unwrap_or(true), t["lookahead"]["pattern"].as_str().unwrap_or("").to_string(), raw_kind(&t["lookahead"]["kind"]))) };
                    (u(&t["index"]), (t["pattern"].as_str().unwrap_or("").to_string(), raw_kind(&t["kind"]), la))
                })
                .collect()
        })
        .unwrap_or_default();
    let term_id = |s: &Symbol| -> Option<(String, bool, Option<(bool, String, bool)>)> {
        if let Symbol::T(parol::Terminal::Trm(t, k, _, _, _, _, l)) = s {
            Some((t.clone(), matches!(k, parol::TerminalKind::Raw), l.as_ref().map(|l| (l.is_positive, l.pattern.clone(), matches!(l.kind, parol::TerminalKind::Raw)))))
        } else {
            None
        }
    };
    for (pi, p) in gc.cfg.pr.iter().enumerate() {
        let lhs = mnts.iter().position(|n| *n == p.get_n()).unwrap_or(usize::MAX);
        let mp = &mprods[pi];
        if u(&mp["production_index"]) != pi || u(&mp["lhs_index"]) != lhs {
            bad(rep, "model-production-lhs", format!("export model production {pi}: index {} lhs {}, expected lhs {lhs}", mp["production_index"], mp["lhs_index"]));
        }
        let mrhs: Vec<(bool, usize)> = mp["rhs"].as_array().map(|a| a.iter().map(|s| if let Some(n) = s.get("NonTerminal") { (false, u(n)) } else { (true, u(&s["Terminal"]["index"])) }).collect()).unwrap_or_default();
        // shape against the grammar
        let shape: Vec<(bool, Option<usize>)> = p.get_r().iter().map(|s| match s { Symbol::N(n, ..) => (false, mnts.iter().position(|x| x == n)), _ => (true, term_id(s).and_then(|id| ident.iter().find(|x| x.1 == id)).map(|x| x.0)) }).collect();
        if mrhs.len() != shape.len() || mrhs.iter().zip(shape.iter()).any(|(a, b)| a.0 != b.0 || Some(a.1) != b.1) {
            bad(rep, "model-production-rhs", format!("export model production {pi} rhs {mrhs:?} does not match {p}"));
        }
        let push = p.2 == parol::grammar::ProductionAttribute::AddToCollection;
        let mattr = dts.get(pi).map(|d| d["production_attribute"].as_str() == Some("AddToCollection"));
        if mattr != Some(push) {
            bad(rep, "model-push-attribute", format!("export model production {pi}: AddToCollection = {mattr:?}, grammar says {push}"));
        }
        if t.is_lr {
            let (slhs, slen, spush) = t.lr_productions[pi];
            if slhs != lhs || slen != p.get_r().len() || spush != push {
                bad(rep, "source-lr-production", format!("generated LRProduction {pi}: lhs {slhs} len {slen} push {spush}; grammar: lhs {lhs} len {} push {push}", p.get_r().len()));
            }
        } else {
            let (slhs, srhs, spush) = &t.ll_productions[pi];
            let rev: Vec<(bool, usize)> = srhs.iter().rev().cloned().collect();
            if *slhs != lhs || rev != mrhs || *spush != push {
                bad(rep, "source-ll-production", format!("generated Production {pi}: lhs {slhs} rhs(reversed back) {rev:?} push {spush}; export model: lhs {lhs} rhs {mrhs:?}; grammar push {push}"));
            }
            for (is_t, i) in srhs {
                if (*is_t && *i >= nterm) || (!*is_t && *i >= nnt) {
                    bad(rep, "index-out-of-range", format!("generated Production {pi} references symbol index {i} out of range"));
                }
            }
        }
    }
    // --- LL automata
    if !t.is_lr {
        let mauto = m["lookahead_automata"].as_array().cloned().unwrap_or_default();
        if t.automata.len() != nnt || mauto.len() != nnt {
            bad(rep, "automata-count", format!("{} automata in source, {} in model, {} non-terminals", t.automata.len(), mauto.len(), nnt));
        } else {
            let mut maxk = 0;
            for (ni, (p0, trs, k)) in t.automata.iter().enumerate() {
                maxk = maxk.max(*k);
                let ma = &mauto[ni];
                let mtrs: Vec<(usize, u16, usize, i32)> = ma["transitions"].as_array().map(|a| a.iter().map(|x| (u(&x["from_state"]), u(&x["term"]) as u16, u(&x["to_state"]), x["prod_num"].as_i64().unwrap_or(-9) as i32)).collect()).unwrap_or_default();
                if u(&ma["non_terminal_index"]) != ni || ma["non_terminal_name"].as_str() != Some(mnts[ni].as_str()) || ma["prod0"].as_i64() != Some(*p0 as i64) || u(&ma["k"]) != *k || mtrs != *trs {
                    bad(rep, "automaton-source-vs-model", format!("automaton of {}: source (prod0 {p0}, k {k}, {trs:?}) vs model (prod0 {}, k {}, {mtrs:?})", mnts[ni], ma["prod0"], ma["k"]));
                }
                // sorted by from-state then terminal (the runtime's search relies on it)
                if trs.windows(2).any(|w| (w[0].0, w[0].1) >= (w[1].0, w[1].1)) {
                    bad(rep, "automaton-not-sorted", format!("transitions of the automaton of {} are not strictly sorted by (from, terminal): {trs:?}", mnts[ni]));
                }
                for tr in trs {
                    let pok = tr.3 == -1 || (tr.3 >= 0 && (tr.3 as usize) < nprods && gc.cfg.pr[tr.3 as usize].get_n() == mnts[ni]);
                    if tr.1 as usize >= nterm || !pok {
                        bad(rep, "index-out-of-range", format!("automaton of {}: transition {tr:?} has a terminal or production out of range / of another non-terminal", mnts[ni]));
                    }
                }
                if *p0 >= 0 && ((*p0 as usize) >= nprods || gc.cfg.pr[*p0 as usize].get_n() != mnts[ni]) {
                    bad(rep, "index-out-of-range", format!("automaton of {}: prod0 {p0} is not a production of it", mnts[ni]));
                }
            }
            if t.max_k != maxk {
                bad(rep, "max-k", format!("MAX_K = {} but the deepest automaton has k = {maxk}", t.max_k));
            }
        }
    } else {
        // --- LR table: source vs model vs a fresh table construction
        let mt = &m["lalr_parse_table"];
        let mactions: Vec<LrAct> = mt["actions"].as_array().map(|a| a.iter().map(|x| if let Some(s) = x.get("Shift") { LrAct::Shift(u(s)) } else if let Some(r) = x.get("Reduce") { LrAct::Reduce(u(&r[0]), u(&r[1])) } else { LrAct::Accept }).collect()).unwrap_or_default();
        if mactions != t.lr_actions {
            bad(rep, "lr-actions-source-vs-model", format!("LR action list: source {:?} vs model {:?}", t.lr_actions, mactions));
        }
        let mstates = mt["states"].as_array().cloned().unwrap_or_default();
        if mstates.len() != t.lr_states.len() {
            bad(rep, "lr-state-count", format!("{} LR states in source, {} in model", t.lr_states.len(), mstates.len()));
        }
        let fresh = guarded(|| calculate_lalr1_parse_table(gc));
        let fresh = match fresh {
            Ok(Ok((tb, _))) => Some(tb),
            _ => None,
        };
        if let Some(tb) = &fresh {
            if tb.states.len() != t.lr_states.len() {
                bad(rep, "lr-state-count", format!("{} LR states in source, {} in a fresh table construction", t.lr_states.len(), tb.states.len()));
            }
        }
        for (si, (acts, gotos)) in t.lr_states.iter().enumerate() {
            if let Some(ms) = mstates.get(si) {
                let ma: Vec<(u16, usize)> = ms["actions"].as_array().map(|a| a.iter().map(|x| (u(&x[0]) as u16, u(&x[1]))).collect()).unwrap_or_default();
                let mg: Vec<(usize, usize)> = ms["gotos"].as_array().map(|a| a.iter().map(|x| (u(&x[0]), u(&x[1]))).collect()).unwrap_or_default();
                if ma != *acts || mg != *gotos {
                    bad(rep, "lr-state-source-vs-model", format!("LR state {si}: source {acts:?}/{gotos:?} vs model {ma:?}/{mg:?}"));
                }
            }
            for (term, ai) in acts {
                if *term as usize >= nterm || *ai >= t.lr_actions.len() {
                    bad(rep, "index-out-of-range", format!("LR state {si}: action ({term}, {ai}) out of range"));
                    continue;
                }
                match &t.lr_actions[*ai] {
                    LrAct::Shift(s) if *s >= t.lr_states.len() => bad(rep, "index-out-of-range", format!("LR state {si}: shift to state {s} out of range")),
                    LrAct::Reduce(n, p) if *n >= nnt || *p >= nprods || t.lr_productions[*p].0 != *n => bad(rep, "index-out-of-range", format!("LR state {si}: reduce ({n}, {p}) out of range or production {p} does not belong to non-terminal {n}")),
                    _ => {}
                }
            }
            for (n, s) in gotos {
                if *n >= nnt || *s >= t.lr_states.len() {
                    bad(rep, "index-out-of-range", format!("LR state {si}: goto ({n}, {s}) out of range"));
                }
            }
            if let Some(tb) = &fresh {
                if let Some(fs) = tb.states.get(si) {
                    let want_a: Vec<(u16, LrAct)> = fs.actions.iter().map(|(t, a)| (*t, match a { LRAction::Shift(s) => LrAct::Shift(*s), LRAction::Reduce(n, p) => LrAct::Reduce(*n, *p), LRAction::Accept => LrAct::Accept })).collect();
                    let got_a: Vec<(u16, LrAct)> = acts.iter().filter(|(_, ai)| *ai < t.lr_actions.len()).map(|(t2, ai)| (*t2, t.lr_actions[*ai].clone())).collect();
                    let want_g: Vec<(usize, usize)> = fs.gotos.iter().map(|(n, s)| (*n, *s)).collect();
                    if want_a != got_a || want_g != *gotos {
                        bad(rep, "lr-state-vs-analysis", format!("LR state {si}: generated {got_a:?}/{gotos:?}, analysis {want_a:?}/{want_g:?}"));
                    }
                }
            }
        }
    }
    // --- scanner: modes, tokens, transitions, skip lists: source vs model vs scanner configurations
    let sc = &gc.scanner_configurations;
    let mstates = m["scanner"]["scanner_states"].as_array().cloned().unwrap_or_default();
    let src = &c.built.st.scanner;
    if src.mode_names.len() != sc.len() || mstates.len() != sc.len() || t.skip_tokens.len() != sc.len() {
        bad(rep, "scanner-state-count", format!("{} scanner states in the grammar, {} modes in the source, {} in the model, {} skip lists", sc.len(), src.mode_names.len(), mstates.len(), t.skip_tokens.len()));
        return;
    }
    for (si, s) in sc.iter().enumerate() {
        let ms = &mstates[si];
        if src.mode_names[si] != s.scanner_name || ms["scanner_name"].as_str() != Some(s.scanner_name.as_str()) || u(&ms["scanner_state"]) != s.scanner_state {
            bad(rep, "scanner-state-name", format!("scanner state {si}: source {:?}, model {:?}, grammar {:?}", src.mode_names[si], ms["scanner_name"], s.scanner_name));
        }
        let skip: Vec<u16> = s.skip_tokens.clone();
        if t.skip_tokens[si] != skip {
            bad(rep, "skip-tokens", format!("scanner state {si}: SKIP_TOKENS_BY_SCANNER_STATE {:?} vs configuration {:?}", t.skip_tokens[si], skip));
        }
        for x in &t.skip_tokens[si] {
            if (*x as usize) < 5 || (*x as usize) >= nterm - 1 {
                bad(rep, "index-out-of-range", format!("skip token {x} of state {si} is not a user terminal"));
            }
        }
        // flags vs the built-in tokens present in the generated mode
        let has = |ty: usize| src.mode_patterns[si].iter().any(|(_, t2)| *t2 == ty);
        if has(1) != s.auto_newline || has(2) != s.auto_ws || has(3) == s.line_comments.is_empty() || has(4) == s.block_comments.is_empty() || has(nterm - 1) == s.allow_unmatched {
            bad(rep, "scanner-builtins", format!("scanner state {si}: built-in tokens in the generated mode (nl {}, ws {}, lc {}, bc {}, err {}) contradict the configuration (auto_newline {}, auto_ws {}, {} line / {} block comments, allow_unmatched {})", has(1), has(2), has(3), has(4), has(nterm - 1), s.auto_newline, s.auto_ws, s.line_comments.len(), s.block_comments.len(), s.allow_unmatched));
        }
        if ms["auto_newline"].as_bool() != Some(s.auto_newline) || ms["auto_ws"].as_bool() != Some(s.auto_ws) || ms["allow_unmatched"].as_bool() != Some(s.allow_unmatched) {
            bad(rep, "model-scanner-flags", format!("scanner state {si}: flags in the export model differ from the configuration"));
        }
        for (_, ty) in &src.mode_patterns[si] {
            if *ty == 0 || *ty >= nterm {
                bad(rep, "index-out-of-range", format!("scanner mode {si} has token type {ty} out of range"));
            }
        }
        for tr in src.modes[si].transitions {
            let (tt, target) = match tr { scnr2::Transition::SetMode(a, b) | scnr2::Transition::PushMode(a, b) => (*a, Some(*b)), scnr2::Transition::PopMode(a) => (*a, None) };
            if tt < 5 || tt >= nterm - 1 || target.is_some_and(|x| x >= sc.len()) {
                bad(rep, "index-out-of-range", format!("scanner mode {si}: transition {tr:?} out of range"));
            }
        }
        if src.modes[si].transitions.len() != s.transitions.len() || ms["transitions"].as_array().map(|a| a.len()) != Some(s.transitions.len()) {
            bad(rep, "scanner-transition-count", format!("scanner state {si}: {} transitions configured, {} in the generated mode, {:?} in the model", s.transitions.len(), src.modes[si].transitions.len(), ms["transitions"].as_array().map(|a| a.len())));
        }
    }
}

pub fn run(ctx: &Ctx) -> i32 {
    let t0 = Instant::now();
    let mut profs = wl::ll_profiles();
    profs.extend(wl::lr_profiles());
    let profiles = static_profiles(profs);
    let n = ctx.n(4000, 80000);
    let rep = run_sharded(ctx, "c21", n, move |rng, i, rep| {
        let (g, pname) = match i % 4 {
            0 => {
                let sp = ScanProfile { max_modes: 3, p_lookahead: 30, p_skip: 40, p_allow_unmatched: 20, p_auto_off: 20, comments: true, lalr: i % 8 == 4 };
                (gen_scan_case(rng, &sp).g, "scanner-states")
            }
            1 => (wl::gen_lr_template(rng), "lalr-template"),
            _ => {
                let p = &profiles[(i as usize / 4) % profiles.len()];
                let mut g = wl::gen_grammar(rng, p);
                wl::decorate_scanner(&mut g, rng);
                (g, p.name)
            }
        };
        let k = draw_k(rng, &g);
        let cfg = GenCfg { trim: i % 3 == 0, no_recovery: i % 5 == 0, max_depth: if i % 7 == 0 { Some(100 + (i % 50) as usize) } else { None }, ..Default::default() };
        let c = match prepare_grammar(g, pname, k, &cfg) {
            Prep::Ready(c) => c,
            Prep::Rejected(st, _) => {
                rep.count(&format!("grammar_rejected_{st:?}"));
                return;
            }
            Prep::Panicked(_, _) => {
                rep.inconclusive("generator panicked (C26)");
                return;
            }
        };
        rep.eval();
        check_encoding(&c, rep);
        // generator options must be rendered into the parse function
        let t = &c.built.tables;
        if t.trim != cfg.trim || (!t.is_lr && t.disable_recovery != cfg.no_recovery) || t.max_depth != cfg.max_depth {
            rep.violation(json!({"kind": "parser-options-not-rendered"}), format!("generator options trim={} no_recovery={} max_depth={:?} but the generated parse function has trim={} disable_recovery={} max_depth={:?}", cfg.trim, cfg.no_recovery, cfg.max_depth, t.trim, t.disable_recovery, t.max_depth), json!({"case": case_json(&c)}));
        }
        rep.nontrivial_h(hash_str(&c.par));
        rep.count(if c.built.is_lr { "lr_grammars" } else { "ll_grammars" });
        if c.built.tables.automata.len() + c.built.tables.lr_states.len() > 8 {
            rep.sample(json!({"grammar": c.par, "lr": c.built.is_lr, "productions": c.built.gc.cfg.pr.len(), "automata": c.built.tables.automata.len(), "lr_states": c.built.tables.lr_states.len()}));
        }
    });
    let rule = "case = accepted LL or LALR grammar (all parser-level profiles with scanner decoration, LALR templates, scanner-level layouts) generated with random parser options; the tables evaluated from the generated *_parser.rs text (syn const-expression evaluation + scnr2_generate's macro front end) are compared with the JSON export model and with the analysis results: non-terminal and terminal names, start index, production lhs / rhs (reversed in source) / push flags, automata (prod0, k, sorted transitions), MAX_K, LR actions / states / gotos (also against a fresh calculate_lalr1_parse_table), scanner state names, built-in tokens vs flags, skip lists, transitions, option calls in the parse function; every index in range; distinct by grammar text (every accepted grammar is non-trivial)";
    let min = if ctx.quick() { 800 } else { 10000 };
    finish(ctx, rep, rule, (min as f64 * ctx.scale) as u64, json!({}), t0.elapsed().as_secs_f64())
}
