//! C08 - Runtime production prediction is exact, also on erroneous input.

use super::c07::strings_upto;
use super::common::*;
use super::conv::*;
use crate::ev::*;
use crate::oracle::{END, Tup, TupSet};
use crate::prng::hash_str;
use crate::run::{self, guarded};
use crate::wl;
use parol::analysis::{FirstCache, FollowCache, calculate_k_tuples};
use serde_json::json;
use std::collections::BTreeMap;
use std::time::Instant;

pub fn run(ctx: &Ctx) -> i32 {
    let t0 = Instant::now();
    let profiles = static_profiles(wl::ll_profiles());
    let quick = ctx.quick();
    let n = ctx.n(2500, 50000);
    let rep = run_sharded(ctx, "c08", n, move |rng, i, rep| {
        let p = &profiles[(i as usize) % profiles.len()];
        if p.terms != wl::Terms::Letters {
            return; // buffers are rendered from token types: needs 1:1 lexemes
        }
        let (_par, _k, prep) = prepare(rng, p);
        let c = match prep {
            Prep::Ready(c) => c,
            Prep::Rejected(st, _) => {
                rep.count(&format!("grammar_rejected_{st:?}"));
                return;
            }
            Prep::Panicked(_, _) => {
                rep.inconclusive("generator panicked (C26)");
                return;
            }
        };
        let gc = &c.built.gc;
        let fc = FirstCache::new();
        let flc = FollowCache::new();
        let Ok(Ok(tuples)) = guarded(|| calculate_k_tuples(gc, c.k_limit, &fc, &flc)) else {
            rep.inconclusive("calculate_k_tuples failed on an accepted grammar");
            return;
        };
        let mut per_nt: BTreeMap<String, Vec<(usize, TupSet)>> = BTreeMap::new();
        for (pi, kt) in &tuples {
            per_nt.entry(gc.cfg.pr[*pi].get_n()).or_default().push((*pi, ktuples_to_set(kt)));
        }
        // token type -> lexeme (terminal index -> TermDef sample); foreign = '#'(error token)
        let names = c.built.tables.terminal_names.len();
        let err_index = (names - 1) as u16;
        let mut lexeme: BTreeMap<u16, String> = BTreeMap::new();
        // terminals on the state's %skip list never reach the lookahead buffer: they are not part of
        // the buffer alphabet (their being ignored is C17's subject)
        let skipped: Vec<usize> = c.g.states[0]
            .skip
            .iter()
            .filter_map(|n| c.g.rules.iter().find(|r| r.name == *n))
            .filter_map(|r| if let Some(crate::gram::Factor::T(t, _)) = r.alts.first().and_then(|a| a.first()) { Some(c.g.canon_term(*t)) } else { None })
            .collect();
        for (idx, t) in c.term_of_index.iter().enumerate() {
            if let Some(t) = t {
                if skipped.contains(&c.g.canon_term(*t)) {
                    continue;
                }
                lexeme.insert(idx as u16, c.g.terms[*t].samples[0].clone());
            }
        }
        lexeme.insert(err_index, "#".to_string());
        let mut alpha: Vec<u16> = lexeme.keys().cloned().collect();
        alpha.sort();
        let max_k = c.built.tables.max_k.max(1);
        let Some(buffers) = strings_upto(&alpha, max_k, if quick { 1500 } else { 8000 }) else {
            rep.inconclusive("too many buffers");
            return;
        };
        for (ni, name) in c.built.tables.non_terminals.iter().enumerate() {
            let Some(prods) = per_nt.get(name) else { continue };
            if prods.len() < 2 {
                continue;
            }
            let dfa = &c.built.st.automata[ni];
            let mut seen_err = false;
            let mut seen_ok = false;
            for w in &buffers {
                let text: String = w.iter().map(|t| lexeme[t].as_str()).collect::<Vec<_>>().join(" ");
                // expected: the production whose lookahead string is a prefix of w padded with $
                let mut padded: Tup = w.clone();
                padded.push(END);
                let mut expect: Option<usize> = None;
                for (pi, set) in prods {
                    for t in set {
                        if t.len() <= padded.len() && padded[..t.len()] == t[..] {
                            expect = Some(*pi);
                        }
                    }
                }
                for sk in [dfa.k.max(1), max_k] {
                    rep.eval();
                    let r = guarded(|| {
                        let mut s = run::new_stream(&c.built, &text, sk).map_err(|e| e.to_string())?;
                        Ok::<_, String>(dfa.eval(&mut s, ni).map_err(|e| e.to_string()))
                    });
                    let got = match r {
                        Err(pm) => {
                            rep.violation(json!({"kind": "panic", "location": panic_location(&pm)}), format!("LookaheadDFA::eval panicked: {pm}"), json!({"case": case_json(&c), "non_terminal": name, "buffer": text}));
                            continue;
                        }
                        Ok(Err(_)) => {
                            rep.inconclusive("stream creation failed");
                            continue;
                        }
                        Ok(Ok(g)) => g,
                    };
                    let got_p = got.as_ref().ok().cloned();
                    if got_p != expect {
                        let kind = match (got_p, expect) {
                            (Some(_), None) => "predicts-without-matching-lookahead",
                            (None, Some(_)) => "fails-although-lookahead-matches",
                            _ => "predicts-wrong-production",
                        };
                        rep.violation(
                            json!({"kind": kind}),
                            format!("eval({name}) on buffer {text:?} returns {got:?}, lookahead sets say {expect:?}"),
                            json!({"case": case_json(&c), "non_terminal": name, "buffer": text, "buffer_types": w, "stream_k": sk,
                                   "tuples": prods.iter().map(|(p, s)| (p, fmt_set(s))).collect::<Vec<_>>(),
                                   "automaton": format!("{:?}", c.built.tables.automata[ni])}),
                        );
                    }
                    if expect.is_some() {
                        seen_ok = true;
                    } else {
                        seen_err = true;
                    }
                }
            }
            if seen_ok && seen_err {
                rep.nontrivial_h(hash_str(&c.par) ^ hash_str(name));
                rep.sample(json!({"grammar": c.par, "non_terminal": name, "buffers": buffers.len(), "dfa_k": dfa.k}));
            }
        }
    });
    let rule = "case = (accepted LL(k) grammar with one-character terminals, non-terminal with >= 2 alternatives); buffers = all token-type strings over terminals+error token up to length MAX_K (EOI padding comes from the real TokenStream), rendered as text and read through the real TokenStream with k = automaton k and k = MAX_K; LookaheadDFA::eval must return Ok(p) exactly when a lookahead string of p (calculate_k_tuples) is a prefix of the $-padded buffer and Err otherwise; non-trivial = non-terminal for which both predicted and unpredictable buffers were seen; distinct by (grammar, non-terminal)";
    let min = if quick { 150 } else { 2000 };
    finish(ctx, rep, rule, (min as f64 * ctx.scale) as u64, json!({}), t0.elapsed().as_secs_f64())
}
