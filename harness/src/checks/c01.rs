//! C01 - LL(k) parsers accept exactly the language of the grammar.

use super::common::*;
use crate::ev::*;
use crate::wl;
use crate::oracle::Earley;
use crate::prng::hash_str;
use crate::run::{self, Opts};
use serde_json::json;
use std::time::Instant;

pub fn run(ctx: &Ctx) -> i32 {
    let t0 = Instant::now();
    let profiles = static_profiles(wl::ll_profiles());
    let quick = ctx.quick();
    let ngrammars = ctx.n(4000, 80000);
    let rep = run_sharded(ctx, "c01", ngrammars, move |rng, i, rep| {
        let p = &profiles[(i as usize) % profiles.len()];
        if let Ok(v) = std::env::var("PV_ONLY") { if v.parse::<u64>().ok() != Some(i) { return; } let g = wl::gen_grammar(&mut rng.clone(), p); eprintln!("CASE {i}\n{}", g.to_par()); }
        let (par, _k, prep) = prepare(rng, p);
        let c = match prep {
            Prep::Rejected(st, msg) => {
                rep.count(&format!("grammar_rejected_{st:?}"));
                if st == crate::inst::Stage::Parse || st == crate::inst::Stage::Interpret || st == crate::inst::Stage::Generate {
                    if std::env::var("PV_DEBUG").is_ok() { eprintln!("REJECT {st:?}: {}\n{}", truncate(&msg, 300), par); }
                    rep.inconclusive(&format!("grammar rejected at {st:?}"));
                }
                return;
            }
            Prep::Panicked(m, _) => {
                // a generator panic is C26's subject
                rep.inconclusive(&format!("generator panicked (C26): {}", truncate(&m, 100)));
                let _ = par;
                return;
            }
            Prep::Ready(c) => c,
        };
        rep.count(&format!("grammar_accepted_{}", p.name));
        rep.count(&format!("grammar_accepted_k{}", c.built.tables.max_k));
        let ear = Earley::new(&c.bnf);
        let nterm = c.g.terms.len();
        let mut inputs: Vec<Vec<usize>> = vec![];
        let cap = if quick { 300 } else { 3000 };
        let maxlen = if quick { 5 } else { 7 };
        inputs.extend(wl::all_strings(nterm + 1, maxlen, cap));
        let nsent = if quick { 20 } else { 120 };
        let mut sentences = vec![];
        for _ in 0..nsent {
            let budget = *rng.pick(&[3usize, 6, 10, 20, 40, 60]);
            if let Some(s) = wl::random_sentence(&c.bnf, rng, budget) {
                if s.len() <= 80 {
                    sentences.push(s);
                }
            }
        }
        let nmut = if quick { 40 } else { 300 };
        for _ in 0..nmut {
            if sentences.is_empty() {
                break;
            }
            let s = rng.pick(&sentences).clone();
            inputs.push(wl::mutate(&s, nterm + 1, rng));
        }
        inputs.extend(sentences);
        let mut members = 0u64;
        let mut non_members = 0u64;
        for w in &inputs {
            let text = wl::render_tokens(&c.g, w, rng, false);
            let Some((toks, _)) = oracle_tokens(&c, &text) else {
                rep.inconclusive("scan failed");
                continue;
            };
            let member = ear.accepts(&toks);
            for recovery in [true, false] {
                let o = run::parse(
                    &c.built,
                    &text,
                    &Opts {
                        recovery,
                        keep_tree: false,
                        light: true,
                        budget: 2_000_000,
                        ..Default::default()
                    },
                );
                rep.eval();
                if o.panic.is_some() || o.clock_exceeded {
                    rep.inconclusive("parser panicked or ran away (C19)");
                    continue;
                }
                if o.ok != member {
                    let kind = if o.ok { "accepts-non-sentence" } else { "rejects-sentence" };
                    rep.violation(
                        json!({"kind": kind, "profile": p.name}),
                        format!("LL(k) parser {kind} (recovery={recovery})"),
                        json!({"case": case_json(&c), "input": text, "oracle_tokens": toks,
                               "recovery": recovery, "parser_ok": o.ok, "oracle_member": member,
                               "error": o.err.as_ref().map(|e| e.1.clone())}),
                    );
                }
            }
            if member {
                members += 1;
            } else {
                non_members += 1;
            }
        }
        rep.count_n("member_inputs", members);
        rep.count_n("non_member_inputs", non_members);
        if members > 0 && non_members > 0 {
            rep.nontrivial_h(hash_str(&c.par));
            if c.built.tables.max_k >= 2 {
                rep.count("nontrivial_grammars_k_ge_2");
            }
            rep.sample(json!({"grammar": c.par, "k_limit": c.k_limit, "max_k": c.built.tables.max_k,
                "inputs": inputs.len(), "members": members, "non_members": non_members,
                "example_input": wl::render_tokens(&c.g, inputs.last().unwrap(), rng, false)}));
        }
    });
    let rule = "case = one generated EBNF grammar (7 LL profiles) accepted by parol's LL(k) pipeline at a drawn K in 1..10, its parser instantiated from the generated source; inputs = all token strings over terminals+foreign up to length 5 (7 thorough, capped) + random sentences up to 60 tokens + mutants; each input parsed with recovery on and off and compared with an Earley recognizer on the grammar as written; non-trivial = accepted grammar with at least one member and one non-member explored; distinct by grammar text";
    let min = if quick { 300 } else { 5000 };
    finish(ctx, rep, rule, (min as f64 * ctx.scale) as u64, json!({}), t0.elapsed().as_secs_f64())
}
