//! C11 - Grammar well-formedness checks are exact.

use super::common::*;
use super::conv::*;
use crate::ev::*;
use crate::prng::{Rng, hash_str};
use crate::run::guarded;
use parol::analysis::{non_productive_non_terminals, unreachable_non_terminals};
use parol::parser::parol_grammar::GrammarType;
use parol::{
    Cfg, GrammarAnalysisError, Pr, Symbol, SymbolAttribute, Terminal, TerminalKind,
    check_and_transform_grammar, detect_left_recursive_non_terminals,
};
use serde_json::json;
use std::collections::BTreeSet;
use std::time::Instant;

fn term(t: &str) -> Symbol {
    Symbol::T(Terminal::Trm(t.to_string(), TerminalKind::Legacy, vec![0], SymbolAttribute::None, None, None, None))
}

/// Arbitrary BNF: every non-terminal has at least one production; anything else is random, so
/// dead, unreachable and (indirectly, nullable-hidden) left-recursive parts occur naturally and
/// are additionally planted.
fn gen_bnf(rng: &mut Rng) -> Cfg {
    let names = ["S", "A", "B", "C", "D", "E", "F"];
    let n = rng.range(1, 7);
    let terms = ["a", "b", "c"];
    let nt = rng.range(1, 3);
    let mut cfg = Cfg::with_start_symbol(names[0]);
    let dense = rng.chance(1, 2);
    for i in 0..n {
        let np = rng.range(1, 3);
        for _ in 0..np {
            let len = *rng.pick(&[0usize, 1, 1, 2, 2, 3, 4]);
            let mut rhs = vec![];
            for pos in 0..len {
                let want_nt = if dense { rng.chance(1, 2) } else { rng.chance(1, 3) };
                if want_nt {
                    // bias: nullable-hidden left recursion needs NT first
                    let j = if pos == 0 && rng.chance(1, 3) { rng.range(0, i) } else { rng.below(n) };
                    rhs.push(Symbol::n(names[j]));
                } else {
                    rhs.push(term(terms[rng.below(nt)]));
                }
            }
            cfg = cfg.add_pr(Pr::new(names[i], rhs));
        }
    }
    cfg
}

fn names_of(b: &crate::gram::Bnf, v: &[bool], want: bool) -> BTreeSet<String> {
    b.nts.iter().enumerate().filter(|(i, _)| v[*i] == want).map(|(_, n)| n.clone()).collect()
}

pub fn run(ctx: &Ctx) -> i32 {
    let t0 = Instant::now();
    let n = ctx.n(20000, 400000);
    let rep = run_sharded(ctx, "c11", n, move |rng, _i, rep| {
        let cfg = gen_bnf(rng);
        let text: Vec<String> = cfg.pr.iter().map(|p| p.to_string()).collect();
        let b = cfg_to_bnf(&cfg);
        let nullable = names_of(&b, &b.nullable(), true);
        let nonprod = names_of(&b, &b.productive(), false);
        let unreach = names_of(&b, &b.reachable(), false);
        let leftrec = names_of(&b, &b.left_recursive(), true);
        rep.eval();
        let wit = |d: String| json!({"productions": text, "start": cfg.st, "detail": d,
            "oracle": {"nullable": nullable, "non_productive": nonprod, "unreachable": unreach, "left_recursive": leftrec}});
        macro_rules! cmp {
            ($kind:expr, $got:expr, $want:expr) => {
                match guarded(|| $got) {
                    Err(pm) => rep.violation(json!({"kind": "panic", "function": $kind, "location": panic_location(&pm)}), format!("{} panicked: {pm}", $kind), wit(String::new())),
                    Ok(got) => {
                        let got: BTreeSet<String> = got.into_iter().collect();
                        if got != $want {
                            rep.violation(json!({"kind": $kind}), format!("{}: parol {:?}, definition {:?}", $kind, got, $want), wit(String::new()));
                        }
                    }
                }
            };
        }
        cmp!("nullable", cfg.calculate_nullable_non_terminals(), nullable);
        cmp!("non-productive", non_productive_non_terminals(&cfg), nonprod);
        cmp!("unreachable", unreachable_non_terminals(&cfg), unreach);
        cmp!("left-recursive", detect_left_recursive_non_terminals(&cfg), leftrec);
        for (gt, is_ll) in [(GrammarType::LLK, true), (GrammarType::LALR1, false)] {
            let expected: (&str, BTreeSet<String>) = if !nonprod.is_empty() {
                ("non-productive", nonprod.clone())
            } else if !unreach.is_empty() {
                ("unreachable", unreach.clone())
            } else if is_ll && !leftrec.is_empty() {
                ("left-recursion", leftrec.clone())
            } else {
                ("ok", BTreeSet::new())
            };
            let r = guarded(|| check_and_transform_grammar(&cfg, gt));
            let got: (&str, BTreeSet<String>) = match r {
                Err(pm) => {
                    if expected.0 == "ok" || is_ll {
                        // LALR(1) table construction is not part of check_and_transform; any panic here is a defect
                    }
                    rep.violation(json!({"kind": "panic", "function": "check_and_transform_grammar", "location": panic_location(&pm)}), format!("check_and_transform_grammar panicked: {pm}"), wit(format!("{gt:?}")));
                    continue;
                }
                Ok(Ok(_)) => ("ok", BTreeSet::new()),
                Ok(Err(e)) => match &e {
                    parol_runtime::ParolError::UserError(a) => match a.downcast_ref::<GrammarAnalysisError>() {
                        Some(GrammarAnalysisError::NonProductiveNonTerminals { non_terminals }) => ("non-productive", non_terminals.iter().map(|h| h.hint.clone()).collect()),
                        Some(GrammarAnalysisError::UnreachableNonTerminals { non_terminals }) => ("unreachable", non_terminals.iter().map(|h| h.hint.clone()).collect()),
                        Some(GrammarAnalysisError::LeftRecursion { recursions }) => ("left-recursion", recursions.iter().map(|h| h.name.clone()).collect()),
                        _ => ("other-error", BTreeSet::new()),
                    },
                    _ => ("other-error", BTreeSet::new()),
                },
            };
            if got != expected {
                rep.violation(
                    json!({"kind": "check-result", "expected": expected.0, "got": got.0}),
                    format!("check_and_transform_grammar({gt:?}): got {got:?}, expected {expected:?}"),
                    wit(format!("{gt:?}")),
                );
            }
            rep.count(&format!("expected_{}_{}", if is_ll { "ll" } else { "lr" }, expected.0));
        }
        let defects = (!nonprod.is_empty()) as u8 + (!unreach.is_empty()) as u8 + (!leftrec.is_empty()) as u8;
        if defects >= 1 && b.nts.len() >= 2 {
            rep.nontrivial_h(hash_str(&text.join("|")));
            if leftrec.len() >= 2 && !nullable.is_empty() {
                rep.sample(json!({"productions": text, "nullable": nullable, "non_productive": nonprod, "unreachable": unreach, "left_recursive": leftrec}));
            }
        }
    });
    let rule = "case = random BNF Cfg built through the public Cfg/Pr API (1-7 non-terminals each with >= 1 production, 1-3 terminals, right-hand sides of 0-4 random symbols, so dead, unreachable, directly/indirectly/nullable-hidden left-recursive parts occur); nullable, non-productive, unreachable and left-recursive sets are compared with textbook fixpoints; check_and_transform_grammar for LLK and LALR1 must return exactly the expected error class (non-productive > unreachable > left recursion for LL only) naming exactly the oracle's set, or Ok; non-trivial = grammar with >= 2 non-terminals and at least one defect class present; distinct by production list";
    let min = if ctx.quick() { 2000 } else { 30000 };
    finish(ctx, rep, rule, (min as f64 * ctx.scale) as u64, json!({}), t0.elapsed().as_secs_f64())
}
