//! C04 - LALR(1) conflicts are always reported and resolution stays sound.

use super::common::*;
use super::conv::*;
use crate::ev::*;
use crate::inst::GenCfg;
use crate::oracle::{self, Earley, LalrVerdict};
use crate::prng::hash_str;
use crate::run::{self, Opts};
use crate::wl;
use serde_json::json;
use std::time::Instant;

pub fn run(ctx: &Ctx) -> i32 {
    let t0 = Instant::now();
    let profiles = static_profiles(wl::lr_profiles());
    let quick = ctx.quick();
    let n = ctx.n(3000, 60000);
    let rep = run_sharded(ctx, "c04", n, move |rng, i, rep| {
        let (g, pname) = match i % 4 {
            0 => (wl::gen_non_lalr_template(rng), "non-lalr-template"),
            1 => (wl::gen_lr_template(rng), "lalr-template"),
            _ => {
                let p = &profiles[(i as usize / 4) % profiles.len()];
                (wl::gen_grammar(rng, p), p.name)
            }
        };
        let par = g.to_par();
        let c = match prepare_grammar(g, pname, 1, &GenCfg::default()) {
            Prep::Ready(c) => c,
            Prep::Rejected(st, _) => {
                // rejecting is always allowed by the property
                rep.count(&format!("grammar_rejected_{st:?}"));
                return;
            }
            Prep::Panicked(_, _) => {
                rep.count("pipeline_panicked_(C26)");
                return;
            }
        };
        rep.eval();
        // the grammar handed to table construction
        let (tb, keys) = cfg_to_bnf_keys(&c.built.gc.cfg);
        let verdict = oracle::lalr1_conflicts(&tb, 3000);
        let reported = c.built.resolved_conflicts;
        let wit = |d: String| json!({"grammar": par, "table_grammar": c.built.gc.cfg.pr.iter().map(|p| p.to_string()).collect::<Vec<_>>(), "reported_conflicts": reported, "detail": d});
        // the same grammar without repeated identical productions (classifier for the known
        // finding "duplicate productions are silently merged")
        let mut dedup = tb.clone();
        {
            let mut seen = std::collections::BTreeSet::new();
            dedup.prods.retain(|p| seen.insert(p.clone()));
        }
        let has_duplicates = dedup.prods.len() != tb.prods.len();
        let dedup_clean = has_duplicates && oracle::lalr1_conflicts(&dedup, 3000) == LalrVerdict::NoConflict;
        match &verdict {
            LalrVerdict::TooBig => rep.inconclusive("LR(1) oracle exceeds state cap"),
            LalrVerdict::Conflict(cf) => {
                rep.count("oracle_conflict");
                if reported == 0 {
                    let kind = if dedup_clean { "silent-table-only-conflict-is-between-identical-productions" } else { "silent-table-for-conflicting-grammar" };
                    rep.violation(json!({"kind": kind}), format!("independent LR(1)-merge construction finds a conflict ({cf}) but parol produced a table with no resolved conflict"), wit(cf.clone()));
                }
            }
            LalrVerdict::NoConflict => {
                rep.count("oracle_no_conflict");
                if reported > 0 {
                    rep.count("over_reported_conflicts_(allowed)");
                }
            }
        }
        // second, independent detector: ambiguity witness
        let tbr = renumber_to_grammar(&tb, &keys, &c.g);
        let mut ambiguous = false;
        for w in wl::all_strings(c.g.terms.len(), 5, if quick { 150 } else { 600 }) {
            if let Some(2) = oracle::count_derivations(&tbr, &w, 20000) {
                ambiguous = true;
                if reported == 0 && !dedup_clean {
                    rep.violation(json!({"kind": "silent-table-for-ambiguous-grammar"}), format!("sentence {w:?} has two derivations but parol produced a table with no resolved conflict"), wit(format!("{w:?}")));
                }
                break;
            }
        }
        if ambiguous {
            rep.count("ambiguous_grammars");
        }
        // soundness of resolution: accepted inputs are sentences
        let mut explored = 0;
        if reported > 0 {
            let ear = Earley::new(&c.bnf);
            let nterm = c.g.terms.len();
            let mut inputs = wl::all_strings(nterm + 1, if quick { 4 } else { 6 }, if quick { 120 } else { 1200 });
            for _ in 0..(if quick { 15 } else { 100 }) {
                let budget = *rng.pick(&[4usize, 8, 16, 30]);
                if let Some(s) = wl::random_sentence(&c.bnf, rng, budget) {
                    if s.len() <= 60 {
                        inputs.push(wl::mutate(&s, nterm + 1, rng));
                        inputs.push(s);
                    }
                }
            }
            for w in &inputs {
                let text = wl::render_tokens(&c.g, w, rng, false);
                let Some((toks, _)) = oracle_tokens(&c, &text) else { continue };
                let budget = 50 * (toks.len() as u64 + 10) * (c.built.tables.lr_productions.len() as u64 + 1);
                let o = run::parse(&c.built, &text, &Opts { keep_tree: false, light: true, budget, ..Default::default() });
                rep.eval();
                explored += 1;
                if o.panic.is_some() || o.clock_exceeded {
                    rep.inconclusive("parser panicked or ran away (C19)");
                    continue;
                }
                if o.ok && !ear.accepts(&toks) {
                    rep.violation(json!({"kind": "resolved-parser-accepts-non-sentence"}), "parser built from a table with resolved conflicts accepts a non-sentence", json!({"case": case_json(&c), "input": text, "oracle_tokens": toks}));
                }
            }
        }
        if matches!(verdict, LalrVerdict::Conflict(_)) || reported > 0 {
            rep.nontrivial_h(hash_str(&par));
            rep.sample(json!({"grammar": par, "oracle": format!("{verdict:?}"), "reported_conflicts": reported, "ambiguous": ambiguous, "inputs_parsed": explored}));
        }
    });
    let rule = "case = LALR-typed grammar (1/4 classic non-LALR templates: dangling else, ambiguous expressions, LR(1)-not-LALR, reduce/reduce, repetition of an optional; 1/4 LALR templates; 1/2 random LR profiles) that parol turns into a table; oracle = canonical LR(1) item sets merged by core on the grammar handed to table construction + an ambiguity witness search (two derivations of a string up to length 5); violation only for under-reporting (conflict or ambiguity and zero reported conflicts) and for an accepted non-sentence (Earley) when conflicts were resolved; non-trivial = grammar with an oracle conflict or with reported conflicts; distinct by grammar text";
    let min = if quick { 300 } else { 4000 };
    finish(ctx, rep, rule, (min as f64 * ctx.scale) as u64, json!({}), t0.elapsed().as_secs_f64())
}
