//! C34 - parol and its language server accept the same grammar texts.

use super::lspcommon::gen_lsp_grammar;
use crate::ev::*;
use crate::lsp::parol_ls_path;
use crate::partext::*;
use crate::prng::hash_str;
use crate::run::guarded;
use parol::ParolGrammar;
use parol_runtime::{ParolError, ParserError};
use serde_json::{Value, json};
use std::cell::RefCell;
use std::io::{BufRead, BufReader, Write};
use std::process::{Child, ChildStdin, ChildStdout, Command, Stdio};
use std::time::Instant;

struct Batch {
    child: Child,
    stdin: ChildStdin,
    out: BufReader<ChildStdout>,
}

thread_local! {
    static BATCH: RefCell<Option<Batch>> = const { RefCell::new(None) };
}

fn ls_parse(text: &str) -> Result<Value, String> {
    BATCH.with(|b| {
        let mut b = b.borrow_mut();
        if b.is_none() {
            let mut child = Command::new(parol_ls_path())
                .arg("--stdio")
                .env("PAROL_LS_VERIF_BATCH", "1")
                .stdin(Stdio::piped())
                .stdout(Stdio::piped())
                .stderr(Stdio::null())
                .spawn()
                .map_err(|e| format!("cannot start parol-ls batch mode: {e}"))?;
            crate::lsp::register_child(child.id());
            let stdin = child.stdin.take().unwrap();
            let out = BufReader::new(child.stdout.take().unwrap());
            *b = Some(Batch { child, stdin, out });
        }
        let bt = b.as_mut().unwrap();
        let line = serde_json::to_string(text).unwrap();
        if bt.stdin.write_all(line.as_bytes()).is_err() || bt.stdin.write_all(b"\n").is_err() || bt.stdin.flush().is_err() {
            let _ = bt.child.kill();
            *b = None;
            return Err("batch process died".into());
        }
        let mut ans = String::new();
        match bt.out.read_line(&mut ans) {
            Ok(n) if n > 0 => serde_json::from_str(&ans).map_err(|e| e.to_string()),
            _ => {
                let _ = bt.child.kill();
                let _ = bt.child.wait();
                *b = None;
                Err("batch process died (crash while parsing)".into())
            }
        }
    })
}

/// "ok" | "syntax" | "lexer" | "user" | "other"
fn parol_parse(text: &str) -> Result<&'static str, String> {
    let r = guarded(|| {
        let mut g = ParolGrammar::new();
        parol::parser::parol_parser::parse(text, "c34.par", &mut g).map(|_| ())
    });
    match r {
        Err(pm) => Err(pm),
        Ok(Ok(())) => Ok("ok"),
        Ok(Err(e)) => Ok(match &e {
            ParolError::ParserError(p) => match p {
                ParserError::SyntaxErrors { .. } | ParserError::PredictionError { .. } | ParserError::UnprocessedInput { .. } | ParserError::TooManyErrors { .. } | ParserError::RecoveryFailed => "syntax",
                _ => "other",
            },
            ParolError::LexerError(_) => "lexer",
            ParolError::UserError(_) => "user",
        }),
    }
}

pub fn run(ctx: &Ctx) -> i32 {
    let t0 = Instant::now();
    let n = ctx.n(400, 8000);
    let quick = ctx.quick();
    let rep = run_sharded(ctx, "c34", n, move |rng, i, rep| {
        let g = gen_lsp_grammar(rng, i);
        let base = g.to_par();
        let base = if i % 2 == 0 { sprinkle_comments(&base, rng, 15) } else { base };
        let toks = lex(&base);
        let mut texts: Vec<(String, &'static str)> = vec![(base.clone(), "valid")];
        let nmut = if quick { 25 } else { 60 };
        for _ in 0..nmut {
            texts.push((join(&mutate_tokens(&toks, rng)), "token-mutant"));
        }
        for _ in 0..(nmut / 3) {
            texts.push((mutate_unicode(&base, rng), "non-ascii-character-inserted"));
        }
        for _ in 0..(nmut / 5) {
            texts.push((format!("%start S %% {}", soup(rng, 12)), "token-soup"));
            texts.push((soup(rng, 12), "token-soup"));
        }
        for (text, family) in texts {
            rep.eval();
            let p = match parol_parse(&text) {
                Ok(p) => p,
                Err(pm) => {
                    rep.inconclusive(&format!("parol's parser panicked (C26): {}", truncate(&pm, 60)));
                    continue;
                }
            };
            let l = match ls_parse(&text) {
                Ok(v) => v,
                Err(e) => {
                    if e.contains("crash") {
                        rep.violation(json!({"kind": "language-server-parser-crashed"}), "the language server's parser crashed on a text", json!({"text": text, "parol": p}));
                    } else {
                        rep.inconclusive(&truncate(&e, 60));
                    }
                    continue;
                }
            };
            let lclass = if l["ok"].as_bool() == Some(true) { "ok" } else { l["class"].as_str().unwrap_or("other") };
            let comparable = |c: &str| matches!(c, "ok" | "syntax" | "lexer");
            if !comparable(p) || !comparable(lclass) {
                rep.count(&format!("not_comparable_parol_{p}_ls_{lclass}"));
                rep.inconclusive("a semantic action aborted one of the parses (user error)");
                continue;
            }
            let p_err = p != "ok";
            let l_err = lclass != "ok";
            rep.count(&format!("{family}_{}", if p_err { "rejected" } else { "accepted" }));
            if p_err != l_err {
                rep.violation(
                    json!({"kind": if p_err { "parol-rejects-ls-accepts" } else { "parol-accepts-ls-rejects" }}),
                    format!("parol's parser says {p}, the language server's parser says {lclass}"),
                    json!({"text": text, "family": family, "ls_message": l["message"]}),
                );
            }
            rep.nontrivial_h(hash_str(&text));
        }
        if i % 50 == 0 {
            rep.sample(json!({"seed_text": base, "mutants": nmut}));
        }
    });
    let comparable = rep.counters.iter().filter(|(k, _)| k.ends_with("_rejected") || k.ends_with("_accepted")).map(|(_, v)| *v).sum::<u64>();
    let mut rep = rep;
    rep.count_n("comparable_pairs", comparable);
    let rule = "case = text: valid generated grammars (with and without comments between arbitrary tokens), single/double token-level mutants (delete/insert/replace/swap/duplicate over the PAR token vocabulary incl. identifiers with non-ASCII word characters), one non-ASCII character inserted next to an identifier, and token soup; parsed by parol::parser::parol_parser::parse in the harness and by parol_ls_parser::parse through the cfg(parol_verif) batch mode of the real parol-ls binary; a pair is compared only when both results are in {Ok, syntax/lexer error}; pairs where a semantic action aborted a parse are inconclusive; non-trivial = comparable pair; distinct by text";
    let min = if quick { 3000 } else { 60000 };
    finish(ctx, rep, rule, (min as f64 * ctx.scale) as u64, json!({}), t0.elapsed().as_secs_f64())
}
