//! C19 - Generated parsers never crash and always terminate.

use super::common::*;
use crate::ev::*;
use crate::gram::{Bnf, Sym};
use crate::inst::GenCfg;
use crate::prng::{Rng, hash_str};
use crate::run::{self, Opts};
use crate::wl;
use serde_json::json;
use std::time::Instant;

/// Does the grammar handed to the parser generator contain a derivation cycle A =>+ A?
pub fn has_cycle(b: &Bnf) -> bool {
    let nul = b.nullable();
    let n = b.nts.len();
    let mut d = vec![vec![false; n]; n];
    for (l, rhs) in &b.prods {
        for (i, s) in rhs.iter().enumerate() {
            if let Sym::N(m) = s {
                let rest_nullable = rhs.iter().enumerate().all(|(j, x)| j == i || matches!(x, Sym::N(y) if nul[*y]));
                if rest_nullable {
                    d[*l][*m] = true;
                }
            }
        }
    }
    for k in 0..n {
        for i in 0..n {
            if d[i][k] {
                for j in 0..n {
                    if d[k][j] {
                        d[i][j] = true;
                    }
                }
            }
        }
    }
    (0..n).any(|i| d[i][i])
}

fn random_text(rng: &mut Rng, g: &crate::gram::Grammar, len: usize) -> String {
    let mut bytes: Vec<u8> = vec![];
    for _ in 0..len {
        match rng.below(10) {
            0..=4 => {
                let t = rng.below(g.terms.len());
                bytes.extend(rng.pick(&g.terms[t].samples[..]).as_bytes());
                if rng.chance(2, 3) {
                    bytes.push(b' ');
                }
            }
            5 => bytes.push(rng.below(256) as u8),
            6 => bytes.extend("\u{e9}\u{4e16}\u{1f600}".as_bytes()),
            7 => bytes.extend(*rng.pick(&[&b"\n"[..], b"\r\n", b"\t", b"\r", b"  "])),
            8 => bytes.extend(*rng.pick(&[&b"//"[..], b"/*", b"*/", b"{-", b"<!--", b"#", b"\""])),
            _ => bytes.push(b"abc(){}[];,.+-*/=<>!~@$%^&|\\'`?"[rng.below(31)]),
        }
    }
    String::from_utf8_lossy(&bytes).into_owned()
}

pub fn run(ctx: &Ctx) -> i32 {
    let t0 = Instant::now();
    let mut profs = wl::ll_profiles();
    profs.extend(wl::lr_profiles());
    let profiles = static_profiles(profs);
    let quick = ctx.quick();
    let n = ctx.n(3000, 60000);
    let rep = run_sharded(ctx, "c19", n, move |rng, i, rep| {
        let p = &profiles[(i as usize) % profiles.len()];
        let mut g = if i % 5 == 0 && p.gtype == crate::gram::GType::LALR { wl::gen_lr_template(rng) } else { wl::gen_grammar(rng, p) };
        wl::decorate_scanner(&mut g, rng);
        let k = draw_k(rng, &g);
        let c = match prepare_grammar(g, p.name, k, &GenCfg::default()) {
            Prep::Ready(c) => c,
            Prep::Rejected(st, _) => {
                rep.count(&format!("grammar_rejected_{st:?}"));
                return;
            }
            Prep::Panicked(_, _) => {
                rep.count("generator_panicked_(C26)");
                return;
            }
        };
        let tb = super::conv::cfg_to_bnf(&c.built.gc.cfg);
        let cyclic = has_cycle(&tb);
        let nprods = c.built.gc.cfg.pr.len() as u64;
        let ninputs = per_case(if quick { 60 } else { 300 });
        let mut any = false;
        let mut runaway_seen = false;
        for n in 0..ninputs {
            if runaway_seen {
                // one witness per grammar is enough; runaways are expensive
                break;
            }
            // input families
            let (text, fam): (String, &str) = match n % 8 {
                0 => { let l = rng.range(0, 40); (random_text(rng, &c.g, l), "random-bytes") }
                1 | 2 => {
                    let b = *rng.pick(&[3usize, 10, 30]);
                    match wl::random_sentence(&c.bnf, rng, b) {
                        Some(w) if w.len() < 200 => (wl::render_rich(&c.g, &wl::mutate(&w, c.g.terms.len() + 1, rng), rng), "mutated-sentence"),
                        _ => (String::new(), "empty"),
                    }
                }
                3 => {
                    // sentence cut inside a token / at a random char boundary
                    match wl::random_sentence(&c.bnf, rng, 20) {
                        Some(w) if w.len() < 200 => {
                            let s = wl::render_rich(&c.g, &w, rng);
                            let mut cut = rng.below(s.len() + 1);
                            while !s.is_char_boundary(cut) {
                                cut -= 1;
                            }
                            (s[..cut].to_string(), "truncated")
                        }
                        _ => (String::new(), "empty"),
                    }
                }
                4 if n % 40 == 4 => {
                    // very long sentence (up to ~10^4 tokens)
                    match wl::random_sentence(&c.bnf, rng, per_case(if quick { 2000 } else { 10000 })) {
                        Some(w) => (wl::render_tokens(&c.g, &w, rng, false), "long-sentence"),
                        None => (String::new(), "empty"),
                    }
                }
                5 => {
                    // one lexeme repeated many times (deep nesting / long lists / error floods)
                    let t = rng.below(c.g.terms.len());
                    let lx = c.g.terms[t].samples[0].clone();
                    ((0..rng.range(50, 400)).map(|_| lx.as_str()).collect::<Vec<_>>().join(" "), "repeated-token")
                }
                6 => { let l = rng.range(100, 300); (random_text(rng, &c.g, l), "long-random") }
                _ => {
                    let b = *rng.pick(&[5usize, 20, 60]);
                    match wl::random_sentence(&c.bnf, rng, b) {
                        Some(w) if w.len() < 300 => (wl::render_rich(&c.g, &w, rng), "sentence"),
                        _ => (String::new(), "empty"),
                    }
                }
            };
            let ntok = text.split_whitespace().count() as u64 + text.len() as u64 / 4;
            let budget = 200 * (ntok + 50) * (nprods + 1);
            for (recovery, depth) in [(true, None), (false, None), (true, Some(rng.range(1, 30)))] {
                if c.built.is_lr && !recovery {
                    continue;
                }
                let o = run::parse(&c.built, &text, &Opts { recovery, max_depth: depth, keep_tree: false, light: true, budget, ..Default::default() });
                rep.eval();
                any = true;
                rep.count(&format!("parsed_{fam}"));
                let wit = |d: &str| json!({"case": case_json(&c), "input": text, "recovery": recovery, "max_depth": depth, "family": fam, "detail": d, "tree_events": o.tree_events, "actions": o.action_count, "resolved_conflicts": c.built.resolved_conflicts});
                if let Some(pm) = &o.panic {
                    rep.violation(json!({"kind": "panic", "location": panic_location(pm), "lr": c.built.is_lr}), format!("generated parser panicked: {}", truncate(pm, 300)), wit(pm));
                } else if o.clock_exceeded {
                    rep.violation(
                        json!({"kind": "runaway", "lr": c.built.is_lr, "resolved_conflicts": c.built.resolved_conflicts > 0, "grammar_has_derivation_cycle": cyclic}),
                        format!("parser exceeded the logical clock budget of {budget} events on an input of ~{ntok} tokens ({} tree events, {} action calls)", o.tree_events, o.action_count),
                        wit(""),
                    );
                    runaway_seen = true;
                    break;
                } else if let Some((cls, msg)) = &o.err {
                    if matches!(cls, run::ErrClass::Internal | run::ErrClass::Tree | run::ErrClass::Other) {
                        rep.count(&format!("internal_error_result: {}", truncate(msg, 60)));
                    }
                }
            }
        }
        if any {
            rep.nontrivial_h(hash_str(&c.par));
            rep.sample(json!({"grammar": c.par, "lr": c.built.is_lr, "inputs": ninputs, "derivation_cycle": cyclic, "resolved_conflicts": c.built.resolved_conflicts}));
        }
    });
    let rule = "case = accepted LL or LALR grammar (conflict-resolved tables included) x inputs: random bytes rendered lossily as UTF-8 mixed with the grammar's own lexemes and comment delimiters, mutated sentences, sentences truncated at an arbitrary character, sentences of up to 10^4 tokens, one token repeated 50-400 times, long random texts; each parsed with recovery on, recovery off (LL) and with a random small depth limit; violation = panic (caught, with location) or the logical clock (tree-construction events for LL, semantic action calls for LR) exceeding 200*(tokens+50)*(|P|+1); a wall-clock watchdog only yields inconclusive; distinct by grammar text (non-trivial = at least one input parsed)";
    let min = if quick { 600 } else { 8000 };
    finish(ctx, rep, rule, (min as f64 * ctx.scale) as u64, json!({}), t0.elapsed().as_secs_f64())
}
