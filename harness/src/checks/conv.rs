//! Conversions between parol's data (Cfg, KTuples) and the harness' independent structures.

use crate::gram::{Bnf, Sym};
use crate::oracle::{END, Tup, TupSet};
use parol::analysis::compiled_terminal::EPS;
use parol::{Cfg, KTuples, Symbol, Terminal};

/// parol Cfg -> Bnf. Non-terminals in alphabetical order (parol's non-terminal index),
/// terminals numbered 5.. by first occurrence of (text, raw/regex class, lookahead) -
/// computed here, not with parol's index function.
pub fn cfg_to_bnf(cfg: &Cfg) -> Bnf {
    cfg_to_bnf_keys(cfg).0
}

/// Also returns, per terminal id - 5, its identity (text, is_raw, lookahead (positive, text, is_raw)).
pub type TermKey = (String, bool, Option<(bool, String, bool)>);
pub fn cfg_to_bnf_keys(cfg: &Cfg) -> (Bnf, Vec<TermKey>) {
    let mut nts: Vec<String> = vec![];
    for p in &cfg.pr {
        let n = p.get_n();
        if !nts.contains(&n) {
            nts.push(n);
        }
        for s in p.get_r() {
            if let Symbol::N(n, ..) = s {
                if !nts.contains(n) {
                    nts.push(n.clone());
                }
            }
        }
    }
    if !nts.contains(&cfg.st) {
        nts.push(cfg.st.clone());
    }
    nts.sort();
    let mut terms: Vec<TermKey> = vec![];
    let mut term_id = |t: &Terminal| -> usize {
        if let Terminal::Trm(text, kind, _, _, _, _, la) = t {
            let key = (
                text.clone(),
                matches!(kind, parol::TerminalKind::Raw),
                la.as_ref().map(|l| (l.is_positive, l.pattern.clone(), matches!(l.kind, parol::TerminalKind::Raw))),
            );
            if let Some(i) = terms.iter().position(|k| *k == key) {
                i + 5
            } else {
                terms.push(key);
                terms.len() + 4
            }
        } else {
            0
        }
    };
    let mut prods = vec![];
    for p in &cfg.pr {
        let lhs = nts.iter().position(|n| *n == p.get_n()).unwrap();
        let mut rhs = vec![];
        for s in p.get_r() {
            match s {
                Symbol::N(n, ..) => rhs.push(Sym::N(nts.iter().position(|x| x == n).unwrap())),
                Symbol::T(t @ Terminal::Trm(..)) => rhs.push(Sym::T(term_id(t))),
                _ => {}
            }
        }
        prods.push((lhs, rhs));
    }
    let start = nts.iter().position(|n| *n == cfg.st).unwrap();
    let n = nts.len();
    (
        Bnf {
            nts,
            start,
            prods,
            nterm: terms.len() + 5,
            user_nts: n,
        },
        terms,
    )
}

/// Re-number the terminals of a Bnf obtained from a parol Cfg to the ids of the harness grammar
/// (canonical TermDef index). Terminals unknown to the harness grammar get ids >= 1000.
pub fn renumber_to_grammar(b: &Bnf, keys: &[TermKey], g: &crate::gram::Grammar) -> Bnf {
    let map: Vec<usize> = keys
        .iter()
        .enumerate()
        .map(|(i, k)| g.terms.iter().position(|t| t.identity() == *k).unwrap_or(1000 + i))
        .collect();
    let mut out = b.clone();
    for (_, rhs) in out.prods.iter_mut() {
        for s in rhs.iter_mut() {
            if let Sym::T(t) = s {
                *t = map[*t - 5];
            }
        }
    }
    out.nterm = g.terms.len();
    out
}

/// parol k-tuples -> oracle tuple set (EOI 0 -> END, epsilon -> empty tuple).
pub fn ktuples_to_set(kt: &KTuples) -> TupSet {
    let mut s = TupSet::new();
    for t in kt.sorted() {
        let mut v: Tup = vec![];
        for ti in t.terminals().iter() {
            if ti == EPS {
                continue;
            }
            if ti == 0 {
                v.push(END);
            } else {
                v.push(ti);
            }
        }
        s.insert(v);
    }
    s
}

pub fn fmt_set(s: &TupSet) -> String {
    let mut out = vec![];
    for t in s.iter().take(12) {
        let items: Vec<String> = t
            .iter()
            .map(|x| if *x == END { "$".to_string() } else { x.to_string() })
            .collect();
        out.push(format!("[{}]", items.join(",")));
    }
    if s.len() > 12 {
        out.push(format!("... {} tuples", s.len()));
    }
    out.join(" ")
}
