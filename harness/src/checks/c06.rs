//! C06 - FIRST_k and FOLLOW_k sets match their definitions, for any request history.

use super::common::*;
use super::conv::*;
use crate::ev::*;
use crate::inst;
use crate::oracle;
use crate::prng::hash_str;
use crate::run::guarded;
use crate::wl;
use parol::analysis::{FirstCache, FollowCache, follow_k};
use serde_json::json;
use std::time::Instant;

pub fn run(ctx: &Ctx) -> i32 {
    let t0 = Instant::now();
    let mut profs = wl::ll_profiles();
    profs.push(wl::Profile { p_guard: 0, n_terms: (2, 2), n_nts: (1, 3), ..wl::Profile::base("two-terminals", crate::gram::GType::LL) });
    let profiles = static_profiles(profs);
    let quick = ctx.quick();
    let n = ctx.n(3000, 60000);
    let rep = run_sharded(ctx, "c06", n, move |rng, i, rep| {
        let p = &profiles[(i as usize) % profiles.len()];
        let g = wl::gen_grammar(rng, p);
        let par = g.to_par();
        let gc = match guarded(|| inst::front(&par)) {
            Ok(Ok((_, gc))) => gc,
            Ok(Err(e)) => {
                rep.count(&format!("rejected_{:?}", e.stage));
                return;
            }
            Err(_) => {
                rep.inconclusive("front end panicked (C26)");
                return;
            }
        };
        let bnf = cfg_to_bnf(&gc.cfg);
        let tiny = bnf.nterm - 5 <= 2 && bnf.nts.len() <= 3;
        let kmax = if tiny { 10 } else if quick { 4 } else { 5 };
        let cap = 3000;
        // oracle sets for every k (None => too big)
        let mut orc = vec![None];
        for k in 1..=kmax {
            orc.push(oracle::first_follow(&bnf, k, cap));
        }
        let nhist = if quick { 3 } else { 8 };
        let mut any = false;
        for h in 0..nhist {
            // one cache pair, one request history
            let fc = FirstCache::new();
            let flc = FollowCache::new();
            let mut ks: Vec<usize> = (1..=kmax).collect();
            match h % 4 {
                0 => {}
                1 => ks.reverse(),
                _ => rng.shuffle(&mut ks),
            }
            if h % 3 == 2 {
                let extra = ks.clone();
                ks.extend(extra);
            }
            for (step, &k) in ks.iter().enumerate() {
                let Some(ff) = &orc[k] else {
                    rep.inconclusive("oracle set cap exceeded");
                    continue;
                };
                rep.eval();
                any = true;
                let follow_first = (h + step) % 2 == 1;
                let wit = |d: String| json!({"grammar": par, "k": k, "history": ks, "step": step, "detail": d});
                let do_first = |rep: &mut Report| {
                    let r = guarded(|| fc.get(k, &gc));
                    let Ok(first) = r else {
                        rep.inconclusive("first_k panicked (C26)");
                        return;
                    };
                    let first = first.borrow();
                    for (pi, kt) in first.productions.iter().enumerate() {
                        let got = ktuples_to_set(kt);
                        if got != ff.first_prod[pi] {
                            rep.violation(json!({"kind": "first-production"}), format!("FIRST_{k} of production {pi}: parol {} vs definition {}", fmt_set(&got), fmt_set(&ff.first_prod[pi])), wit(format!("production {pi}")));
                            return;
                        }
                    }
                    for (ni, kt) in first.non_terminals.iter().enumerate() {
                        let got = ktuples_to_set(kt);
                        if got != ff.first_nt[ni] {
                            rep.violation(json!({"kind": "first-nonterminal"}), format!("FIRST_{k}({}) : parol {} vs definition {}", bnf.nts[ni], fmt_set(&got), fmt_set(&ff.first_nt[ni])), wit(bnf.nts[ni].clone()));
                            return;
                        }
                    }
                };
                let do_follow = |rep: &mut Report| {
                    // populate the cache entry (crate-private content) and read the value through
                    // the public follow_k with the same caches
                    let r = guarded(|| {
                        if step % 2 == 0 {
                            let _ = flc.get(k, &gc, &fc);
                        }
                        follow_k(&gc, k, &fc, &flc)
                    });
                    let Ok((_, fs)) = r else {
                        rep.inconclusive("follow_k panicked (C26)");
                        return;
                    };
                    for (ni, kt) in fs.non_terminals.iter().enumerate() {
                        let got = ktuples_to_set(kt);
                        if got != ff.follow[ni] {
                            rep.violation(json!({"kind": "follow"}), format!("FOLLOW_{k}({}) : parol {} vs definition {}", bnf.nts[ni], fmt_set(&got), fmt_set(&ff.follow[ni])), wit(bnf.nts[ni].clone()));
                            return;
                        }
                    }
                };
                if follow_first {
                    do_follow(rep);
                    do_first(rep);
                } else {
                    do_first(rep);
                    do_follow(rep);
                }
            }
        }
        if any && bnf.prods.len() >= 2 {
            rep.nontrivial_h(hash_str(&par));
            if kmax == 10 {
                rep.count("grammars_checked_up_to_k10");
            }
            rep.sample(json!({"grammar": par, "kmax": kmax, "histories": nhist,
                "follow_2_of_start": orc.get(2).and_then(|x| x.as_ref()).map(|ff| fmt_set(&ff.follow[bnf.start]))}));
        }
    });
    let rule = "case = transformed grammar x request history (ascending, descending, shuffled, repeated k; FIRST-before-FOLLOW and FOLLOW-before-FIRST; cache populated through FollowCache::get or not) on one FirstCache/FollowCache pair, k up to 4-5 (10 for grammars with <= 2 terminals and <= 3 non-terminals); every FIRST_k per production and non-terminal and FOLLOW_k per non-terminal read through the public API is compared with a Kleene iteration from bottom on Vec<u16> sets; non-trivial = grammar with >= 2 productions with at least one k compared; distinct by grammar text";
    let min = if quick { 400 } else { 5000 };
    finish(ctx, rep, rule, (min as f64 * ctx.scale) as u64, json!({}), t0.elapsed().as_secs_f64())
}
