//! C02 - LL(k) parse trees and semantic actions follow the leftmost derivation.

use super::common::*;
use super::tree;
use crate::ev::*;
use crate::prng::hash_str;
use crate::run::{self, Opts};
use crate::wl;
use serde_json::json;
use std::time::Instant;

pub fn run(ctx: &Ctx) -> i32 {
    let t0 = Instant::now();
    let profiles = static_profiles(wl::ll_profiles());
    let quick = ctx.quick();
    let ngrammars = ctx.n(3000, 60000);
    let rep = run_sharded(ctx, "c02", ngrammars, move |rng, i, rep| {
        let p = &profiles[(i as usize) % profiles.len()];
        let (_par, _k, prep) = prepare(rng, p);
        let c = match prep {
            Prep::Ready(c) => c,
            Prep::Rejected(st, _) => {
                rep.count(&format!("grammar_rejected_{st:?}"));
                return;
            }
            Prep::Panicked(_, _) => {
                rep.inconclusive("generator panicked (C26)");
                return;
            }
        };
        let Some(pr) = tree::prods_of_case(&c) else {
            rep.inconclusive("export model unreadable");
            return;
        };
        let nsent = if quick { 40 } else { 120 };
        for s in 0..nsent {
            let budget = *rng.pick(&[2usize, 4, 8, 16, 30, 60]);
            let Some(w) = wl::random_sentence(&c.bnf, rng, budget) else { continue };
            if w.len() > 100 {
                continue;
            }
            let text = wl::render_tokens(&c.g, &w, rng, s % 2 == 1);
            let Some((toks, scanned)) = oracle_tokens(&c, &text) else {
                rep.inconclusive("scan failed");
                continue;
            };
            if toks != w {
                // tokenization differs from the intended token string (C13's subject)
                rep.inconclusive("tokenization differs from intended string");
                continue;
            }
            let recovery = s % 3 != 0;
            let o = run::parse(&c.built, &text, &Opts { recovery, budget: 5_000_000, ..Default::default() });
            rep.eval();
            if o.panic.is_some() || o.clock_exceeded {
                rep.inconclusive("parser panicked or ran away (C19)");
                continue;
            }
            if !o.ok {
                rep.inconclusive("sentence rejected (C01)");
                continue;
            }
            let wit = |what: &str| {
                json!({"case": case_json(&c), "input": text, "recovery": recovery, "detail": what,
                       "actions": o.actions.iter().map(|a| a.prod).collect::<Vec<_>>()})
            };
            if o.tree_unbalanced {
                rep.violation(json!({"kind": "unbalanced-tree-events"}), "tree builder received unbalanced open/close events", wit(""));
                continue;
            }
            let Some(root) = &o.tree else {
                rep.violation(json!({"kind": "no-tree"}), "successful parse returned no tree", wit(""));
                continue;
            };
            match tree::validate(&pr, root) {
                Err(e) => {
                    rep.violation(json!({"kind": "not-a-derivation-tree"}), format!("LL tree is not a derivation tree: {e}"), wit(&e));
                    continue;
                }
                Ok(info) => {
                    if let Err(e) = tree::compare_yield(&info, &scanned) {
                        rep.violation(json!({"kind": "yield-mismatch"}), format!("LL tree yield: {e}"), wit(&e));
                    }
                    if let Err(e) = tree::compare_actions(&info, &o.actions) {
                        rep.violation(json!({"kind": "action-log-mismatch"}), format!("LL semantic actions: {e}"), wit(&e));
                    }
                    if info.depth >= 3 && info.eps_apps >= 1 {
                        rep.nontrivial_h(hash_str(&c.par) ^ hash_str(&text));
                        if s < 2 {
                            rep.sample(json!({"grammar": c.par, "input": text,
                                "post_order_productions": info.post.iter().map(|a| a.prod).collect::<Vec<_>>(),
                                "tree_depth": info.depth, "epsilon_applications": info.eps_apps}));
                        }
                    }
                }
            }
        }
    });
    let rule = "case = (accepted LL(k) grammar, random sentence up to 60 tokens, rendered with plain or varied whitespace, recovery on/off); the returned tree (custom TreeConstruct recorder) must have root \"\" with exactly the start symbol, every inner node must match exactly a production of the transformed grammar (export model), the leaf yield must equal the scanner's significant tokens, and the recorded action log must equal the tree's post-order production applications with identical children; non-trivial = tree depth >= 3 with at least one epsilon production applied; distinct by (grammar, input)";
    let min = if quick { 300 } else { 3000 };
    finish(ctx, rep, rule, (min as f64 * ctx.scale) as u64, json!({}), t0.elapsed().as_secs_f64())
}
