//! Per-shard language-server sessions and text generators for the LSP checks.

use crate::gram::GType;
use crate::lsp::Lsp;
use crate::prng::Rng;
use crate::wl;
use crate::wlscan::*;
use serde_json::json;
use std::cell::RefCell;

thread_local! {
    pub static SESSION: RefCell<Option<Lsp>> = const { RefCell::new(None) };
    pub static SESSION_NO: RefCell<u64> = const { RefCell::new(0) };
}

/// Run `f` with this shard's server session (started on demand, restarted after a crash).
pub fn with_session<T>(lookahead: usize, f: impl FnOnce(&mut Lsp) -> T) -> Result<T, String> {
    SESSION.with(|s| {
        let mut s = s.borrow_mut();
        let need_new = match s.as_mut() {
            None => true,
            Some(l) => !l.alive(),
        };
        if need_new {
            let no = SESSION_NO.with(|n| {
                *n.borrow_mut() += 1;
                *n.borrow()
            });
            let tag = format!("{:?}-{no}", std::thread::current().id()).replace(['(', ')'], "");
            *s = Some(Lsp::start(lookahead, json!({}), &tag)?);
        }
        Ok(f(s.as_mut().unwrap()))
    })
}

pub fn drop_session() {
    SESSION.with(|s| {
        if let Some(l) = s.borrow_mut().take() {
            l.shutdown();
        }
    });
}

/// A valid grammar (harness AST) for the LSP workloads.
pub fn gen_lsp_grammar(rng: &mut Rng, i: u64) -> crate::gram::Grammar {
    match i % 3 {
        0 => {
            let sp = ScanProfile { max_modes: 3, p_lookahead: 25, p_skip: 40, p_allow_unmatched: 20, p_auto_off: 20, comments: true, lalr: i % 6 == 3 };
            let mut g = gen_scan_case(rng, &sp).g;
            wl::annotate(&mut g, rng);
            g
        }
        1 => {
            let p = wl::Profile { p_clip: 15, p_ebnf: 40, nest: 3, ..wl::Profile::base("lsp-ll", GType::LL) };
            let mut g = wl::gen_grammar(rng, &p);
            wl::decorate_scanner(&mut g, rng);
            wl::annotate(&mut g, rng);
            g
        }
        _ => {
            let p = wl::Profile { p_clip: 15, left_rec: true, names: wl::Names::Clash, n_nts: (2, 6), ..wl::Profile::base("lsp-lr", GType::LALR) };
            let mut g = wl::gen_grammar(rng, &p);
            wl::decorate_scanner(&mut g, rng);
            g
        }
    }
}
