//! C28 - Renaming a symbol in the language server is a consistent renaming.

use super::lspcommon::*;
use super::parfp::*;
use crate::ev::*;
use crate::lsp::{LspErr, apply_edits};
use crate::partext::*;
use crate::prng::hash_str;
use crate::run::guarded;
use parol::obtain_grammar_config_from_string;
use serde_json::{Value, json};
use std::time::Instant;

fn fp_of(text: &str) -> Option<Value> {
    match guarded(|| obtain_grammar_config_from_string(text, false)) {
        Ok(Ok(gc)) => Some(fingerprint(&gc, true)),
        _ => None,
    }
}

pub fn run(ctx: &Ctx) -> i32 {
    let t0 = Instant::now();
    let quick = ctx.quick();
    let n = ctx.n(300, 6000);
    let rep = run_sharded(ctx, "c28", n, move |rng, i, rep| {
        let g = gen_lsp_grammar(rng, i);
        let base = g.to_par();
        let text = if i % 3 == 0 { sprinkle_comments_ordinary(&base, rng, 20) } else { base.clone() };
        if fp_of(&text).is_none() {
            rep.count("text_not_accepted_by_parol");
            return;
        }
        let nts = g.nt_names();
        let states: Vec<String> = g.states.iter().map(|s| s.name.clone()).collect();
        let spans = lex_spans(&text);
        let uri = format!("file:///c28_{i}.par");
        // identifier occurrences of non-terminals and scanner states (outside the declarations'
        // type names: those are after '=' or ':' '::' chains and never equal to our names)
        let mut occ: Vec<(u64, u64, String, bool)> = vec![];
        for (l, c, t) in &spans {
            if nts.contains(t) {
                occ.push((*l, *c, t.clone(), true));
            } else if states.contains(t) {
                occ.push((*l, *c, t.clone(), false));
            }
        }
        if occ.is_empty() {
            return;
        }
        rng.shuffle(&mut occ);
        occ.truncate(if quick { 12 } else { 40 });
        let fresh = "Zq9x";
        let r = with_session(3, |l| -> Result<Vec<(u64, u64, String, bool, u64, Value, Value)>, String> {
            l.open(&uri, 1, &text);
            let mut out = vec![];
            for (line, col, name, is_nt) in &occ {
                // positions inside the identifier: first, last character
                for delta in [0u64, name.chars().count() as u64 - 1] {
                    let pos = json!({"line": line, "character": col + delta});
                    let prep = match l.request("textDocument/prepareRename", json!({"textDocument": {"uri": uri}, "position": pos}), 10000) {
                        Ok(v) => v,
                        Err(LspErr::Timeout) => return Err("TIMEOUT".into()),
                        Err(LspErr::Exited(info)) => return Err(format!("CRASH {info}")),
                    };
                    let ren = match l.request("textDocument/rename", json!({"textDocument": {"uri": uri}, "position": pos, "newName": fresh}), 10000) {
                        Ok(v) => v,
                        Err(LspErr::Timeout) => return Err("TIMEOUT".into()),
                        Err(LspErr::Exited(info)) => return Err(format!("CRASH {info}")),
                    };
                    out.push((*line, col + delta, name.clone(), *is_nt, delta, prep, ren));
                }
            }
            l.close(&uri);
            let _ = l.drain(1, 50);
            Ok(out)
        });
        let results = match r {
            Err(e) => {
                rep.inconclusive(&format!("no server session: {}", truncate(&e, 60)));
                return;
            }
            Ok(Err(e)) if e == "TIMEOUT" => {
                rep.inconclusive("rename request timed out");
                return;
            }
            Ok(Err(e)) => {
                rep.violation(json!({"kind": "server-crash-while-renaming"}), format!("language server died during prepareRename/rename: {e}"), json!({"text": text}));
                return;
            }
            Ok(Ok(x)) => x,
        };
        for (line, col, name, is_nt, _delta, prep, ren) in results {
            rep.eval();
            let wit = |d: String| json!({"text": text, "position": [line, col], "identifier": name, "prepare": prep, "rename": ren, "detail": d});
            let renameable = if is_nt { name != g.start } else { name != "INITIAL" };
            let prep_some = !prep.is_null() && prep.get("error").is_none();
            let edits: Vec<Value> = ren["documentChanges"][0]["edits"].as_array().cloned().unwrap_or_default();
            let ren_some = !ren.is_null() && !edits.is_empty();
            if !renameable {
                if prep_some || ren_some {
                    rep.violation(json!({"kind": "non-renameable-symbol-offered"}), format!("{name} (start symbol / INITIAL) is offered for renaming"), wit(String::new()));
                }
                continue;
            }
            if prep_some != ren_some {
                rep.violation(json!({"kind": "prepare-and-rename-disagree"}), format!("prepareRename {} but rename {}", if prep_some { "accepts" } else { "refuses" }, if ren_some { "returns edits" } else { "returns nothing" }), wit(String::new()));
                continue;
            }
            if !prep_some {
                rep.violation(json!({"kind": "renameable-symbol-refused", "is_non_terminal": is_nt}), format!("{name} at {line}:{col} is a renameable {} but prepareRename refuses", if is_nt { "non-terminal" } else { "scanner state" }), wit(String::new()));
                continue;
            }
            // every edit range must currently contain the identifier
            let mut bad_range = false;
            for e in &edits {
                let r = &e["range"];
                let s = crate::lsp::pos_to_offset_chars(&text, r["start"]["line"].as_u64().unwrap_or(0), r["start"]["character"].as_u64().unwrap_or(0));
                let en = crate::lsp::pos_to_offset_chars(&text, r["end"]["line"].as_u64().unwrap_or(0), r["end"]["character"].as_u64().unwrap_or(0));
                match (s, en) {
                    (Some(a), Some(b)) if a <= b && &text[a..b] == name => {}
                    _ => {
                        rep.violation(json!({"kind": "edit-range-is-not-the-identifier"}), format!("an edit range does not contain {name}: {r}"), wit(r.to_string()));
                        bad_range = true;
                        break;
                    }
                }
            }
            if bad_range {
                continue;
            }
            let applied = match apply_edits(&text, &edits) {
                Ok(a) => a,
                Err(e) => {
                    rep.violation(json!({"kind": "edits-not-applicable"}), format!("rename edits cannot be applied: {e}"), wit(e.clone()));
                    continue;
                }
            };
            let expected_g = if is_nt {
                let nm = name.clone();
                g.rename_nts(&move |n: &str| if n == nm { fresh.to_string() } else { n.to_string() })
            } else {
                g.rename_state(&name, fresh)
            };
            match (fp_of(&applied), fp_of(&expected_g.to_par())) {
                (Some(a), Some(b)) => {
                    if let Some(d) = first_difference(&b, &a) {
                        rep.violation(json!({"kind": "rename-is-not-consistent", "is_non_terminal": is_nt}), format!("after renaming {name} the grammar differs from the consistently renamed grammar: {}", truncate(&d, 300)), json!({"text": text, "identifier": name, "applied": applied, "position": [line, col], "detail": d}));
                    }
                }
                (None, _) => rep.violation(json!({"kind": "renamed-text-rejected"}), format!("the text after renaming {name} is rejected by parol"), json!({"text": text, "identifier": name, "applied": applied})),
                (_, None) => rep.inconclusive("expected renamed grammar rejected"),
            }
            rep.nontrivial_h(hash_str(&text) ^ hash_str(&format!("{line}:{col}")));
            if line == 0 && i % 20 == 0 {
                rep.sample(json!({"text": text, "identifier": name, "position": [line, col], "edits": edits.len()}));
            }
        }
    });
    let rule = "case = (valid generated PAR text - scanner states with transitions and skip lists, %nt_type, annotations, name-clash names - and one identifier occurrence of a non-terminal or scanner state, addressed at its first and last character) through the real parol-ls over stdio (textDocument/prepareRename + textDocument/rename with a fresh name); start symbol and INITIAL must not be offered; prepareRename and rename must agree; every edit range must currently contain the identifier; the semantic fingerprint of the edited text must equal the fingerprint of the harness grammar re-rendered with that symbol consistently renamed; non-trivial = renameable occurrence checked; distinct by (text, position)";
    let min = if quick { 1000 } else { 15000 };
    finish(ctx, rep, rule, (min as f64 * ctx.scale) as u64, json!({}), t0.elapsed().as_secs_f64())
}
