//! C10 - Left factoring preserves the language and removes shared prefixes.

use super::c09::{lang_len_for, shape};
use super::common::*;
use super::conv::*;
use crate::ev::*;
use crate::gram::GType;
use crate::oracle::bounded_langs;
use crate::prng::hash_str;
use crate::run::guarded;
use crate::wl;
use parol::{left_factor, obtain_grammar_config_from_string};
use serde_json::json;
use std::time::Instant;

pub fn run(ctx: &Ctx) -> i32 {
    let t0 = Instant::now();
    let ll = |n| wl::Profile::base(n, GType::LL);
    let profiles = static_profiles(vec![
        wl::Profile { p_shared_prefix: 70, max_alts: 4, p_guard: 0, n_terms: (2, 3), ..ll("shared-prefix") },
        wl::Profile { p_shared_prefix: 70, max_alts: 4, p_guard: 0, n_terms: (2, 4), names: wl::Names::Clash, n_nts: (2, 6), ..ll("tied-prefix-name-clash") },
        wl::Profile { p_shared_prefix: 40, p_ebnf: 40, n_terms: (2, 3), left_rec: true, p_back: 40, ..ll("arbitrary-bnf") },
        wl::Profile { p_shared_prefix: 50, p_empty_alt: 30, n_terms: (2, 3), ..ll("nullable-prefix") },
    ]);
    let quick = ctx.quick();
    let n = ctx.n(3000, 60000);
    let rep = run_sharded(ctx, "c10", n, move |rng, i, rep| {
        let p = &profiles[(i as usize) % profiles.len()];
        let g = wl::gen_grammar(rng, p);
        let par = g.to_par();
        let gc = match guarded(|| obtain_grammar_config_from_string(&par, false)) {
            Ok(Ok(gc)) => gc,
            Ok(Err(_)) => {
                rep.count("rejected_by_front_end");
                return;
            }
            Err(_) => {
                rep.inconclusive("front end panicked (C26)");
                return;
            }
        };
        rep.eval();
        let r = guarded(|| left_factor(&gc.cfg));
        let lf = match r {
            Ok(c) => c,
            Err(pm) => {
                rep.violation(json!({"kind": "panic", "location": panic_location(&pm)}), format!("left_factor panicked: {pm}"), json!({"grammar": par}));
                return;
            }
        };
        let wit = |d: String| json!({"grammar": par, "input_cfg": gc.cfg.pr.iter().map(|p| p.to_string()).collect::<Vec<_>>(), "left_factored": lf.pr.iter().map(|p| p.to_string()).collect::<Vec<_>>(), "detail": d});
        // (1) no two non-empty alternatives of one non-terminal start with equal Symbols
        let mut factored_something = lf.pr.len() != gc.cfg.pr.len();
        for (i, a) in lf.pr.iter().enumerate() {
            for b in lf.pr.iter().skip(i + 1) {
                if a.get_n() == b.get_n() && !a.get_r().is_empty() && !b.get_r().is_empty() && a.get_r()[0] == b.get_r()[0] {
                    rep.violation(json!({"kind": "shared-prefix-left"}), format!("after left factoring {} and {} start with the same symbol", a, b), wit(String::new()));
                    factored_something = true;
                }
            }
        }
        // (2) language
        let (b0, k0) = cfg_to_bnf_keys(&gc.cfg);
        let (b1, k1) = cfg_to_bnf_keys(&lf);
        let b0 = renumber_to_grammar(&b0, &k0, &g);
        let b1 = renumber_to_grammar(&b1, &k1, &g);
        let l = lang_len_for(g.terms.len(), quick);
        match (bounded_langs(&b0, l, 30000), bounded_langs(&b1, l, 30000)) {
            (Some(la), Some(lb)) => {
                for (ai, name) in b0.nts.iter().enumerate() {
                    let Some(bi) = b1.nts.iter().position(|n| n == name) else {
                        rep.violation(json!({"kind": "nonterminal-missing"}), format!("non-terminal {name} is missing after left factoring"), wit(name.clone()));
                        continue;
                    };
                    if la[ai] != lb[bi] {
                        let only_a: Vec<_> = la[ai].difference(&lb[bi]).take(3).collect();
                        let only_b: Vec<_> = lb[bi].difference(&la[ai]).take(3).collect();
                        rep.violation(json!({"kind": "language-changed"}), format!("bounded language (len <= {l}) of {name} changed by left factoring: only before {only_a:?}, only after {only_b:?}"), wit(name.clone()));
                        break;
                    }
                }
            }
            _ => rep.inconclusive("bounded language exceeds cap"),
        }
        // (3) suffix-name freshness: metamorphic renaming
        let names = g.nt_names();
        let renamed = g.rename_nts(&|n: &str| format!("Zq{}x", names.iter().position(|x| x == n).unwrap_or(99)));
        if let Ok(Ok(gc2)) = guarded(|| obtain_grammar_config_from_string(&renamed.to_par(), false)) {
            if shape(&gc.cfg) == shape(&gc2.cfg) {
                if let Ok(lf2) = guarded(|| left_factor(&gc2.cfg)) {
                    let (s1, s2) = (shape(&lf), shape(&lf2));
                    // D8: the result may depend on the hash seed, but only in names/order - the
                    // number of non-terminals and productions is invariant
                    if s1.0 != s2.0 || s1.1.len() != s2.1.len() {
                        rep.violation(json!({"kind": "suffix-name-collision"}), format!("left factoring of the grammar and of its collision-free renaming differ: {} vs {} non-terminals, {} vs {} productions", s1.0, s2.0, s1.1.len(), s2.1.len()), wit(renamed.to_par()));
                    }
                }
            }
        }
        if factored_something {
            rep.nontrivial_h(hash_str(&par));
            rep.sample(json!({"grammar": par, "productions_before": gc.cfg.pr.len(), "productions_after": lf.pr.len(), "max_len": l}));
        }
    });
    let rule = "case = BNF grammar produced by canonicalizing a generated grammar with shared / tied prefixes (also left-recursive and nullable ones, user non-terminals named like suffix helpers) passed to the public left_factor(); termination by wall watchdog (inconclusive), panic = violation; no two non-empty alternatives of one non-terminal may start with equal Symbols; bounded languages (len <= 4-8) of every input non-terminal must be unchanged; metamorphic renaming run for suffix-name freshness (non-terminal and production counts); non-trivial = left factoring changed the production count; distinct by grammar text";
    let min = if quick { 200 } else { 3000 };
    finish(ctx, rep, rule, (min as f64 * ctx.scale) as u64, json!({}), t0.elapsed().as_secs_f64())
}
