//! C24 - Code generation is deterministic (separate processes, fresh hash seeds).

use crate::ev::*;
use crate::gram::GType;
use crate::prng::hash_str;
use crate::wl;
use serde_json::json;
use std::collections::BTreeMap;
use std::process::Command;
use std::time::Instant;

pub fn run(ctx: &Ctx) -> i32 {
    let t0 = Instant::now();
    let ll = |n| wl::Profile::base(n, GType::LL);
    let profiles: &'static [wl::Profile] = Box::leak(
        vec![
            wl::Profile { p_shared_prefix: 80, max_alts: 4, p_guard: 0, n_terms: (2, 4), n_nts: (2, 5), ..ll("tied-prefix") },
            wl::Profile { p_shared_prefix: 60, max_alts: 4, p_guard: 0, p_ebnf: 40, n_terms: (2, 4), ..ll("tied-prefix-ebnf") },
            wl::Profile { p_guard: 30, n_terms: (2, 3), p_ebnf: 35, ..ll("ll-deep-k") },
            ll("ll-plain"),
            wl::Profile { left_rec: true, p_shared_prefix: 40, ..wl::Profile::base("lr", GType::LALR) },
        ]
        .into_boxed_slice(),
    );
    let quick = ctx.quick();
    let n = ctx.n(60, 1200);
    let nproc = if quick { 6 } else { 16 };
    let exe = std::env::current_exe().expect("current exe");
    let work = format!("/verif/work/c24-{}-{}", ctx.build, std::process::id());
    let _ = std::fs::remove_dir_all(&work);
    std::fs::create_dir_all(&work).unwrap();
    let work2 = work.clone();
    // every case already runs N generator processes (each with a rustfmt child): few shards, and a
    // generous per-case watchdog (it can only yield "inconclusive") for loaded machines
    let ctx = &Ctx { shards: ctx.shards.min(4), case_limit_s: ctx.case_limit_s.max(600), ..ctx.clone() };
    let rep = run_sharded(ctx, "c24", n, move |rng, i, rep| {
        let p = &profiles[(i as usize) % profiles.len()];
        let g = if i % 7 == 6 {
            // the classic tie: several equally long shared prefixes in one non-terminal
            let mut g = crate::gram::Grammar::new("S", GType::LL);
            g.terms = ["a", "b", "c", "d", "x", "y"].iter().map(|t| crate::gram::TermDef::raw(t)).collect();
            let t = |i: usize| crate::gram::Factor::T(i, Default::default());
            let mut alts = vec![];
            for (p1, p2) in [(0, 1), (0, 2), (3, 1)] {
                for last in [4, 5] {
                    alts.push(vec![t(p1), t(p2), t(last)]);
                }
            }
            rng.shuffle(&mut alts);
            g.rules.push(crate::gram::Rule { name: "S".into(), alts });
            g
        } else if i % 7 == 3 {
            // several tokens on one %skip list, scanner states with transitions: every list that ends
            // up in the generated files has an order that must not depend on the process
            let mut g = wl::gen_grammar(rng, p);
            let n = rng.range(3, 6);
            for j in 0..n {
                let text = format!("~{}", (b'a' + j as u8) as char);
                g.terms.push(crate::gram::TermDef::raw(&text));
                let ti = g.terms.len() - 1;
                let name = format!("Noise{j}");
                g.rules.push(crate::gram::Rule { name: name.clone(), alts: vec![vec![crate::gram::Factor::T(ti, Default::default())]] });
                g.states[0].skip.push(name);
            }
            rng.shuffle(&mut g.states[0].skip);
            g
        } else if i % 7 == 5 {
            let sp = crate::wlscan::ScanProfile { max_modes: 3, p_lookahead: 20, p_skip: 80, p_allow_unmatched: 20, p_auto_off: 20, comments: true, lalr: false };
            crate::wlscan::gen_scan_case(rng, &sp).g
        } else {
            wl::gen_grammar(rng, p)
        };
        let par = g.to_par();
        let dir = format!("{work2}/{i}");
        std::fs::create_dir_all(&dir).unwrap();
        let gfile = format!("{dir}/g.par");
        std::fs::write(&gfile, &par).unwrap();
        let k = 3;
        // N fresh processes (RandomState differs per process)
        let mut children = vec![];
        for j in 0..nproc {
            let out = format!("{dir}/out{j}");
            let ch = Command::new(&exe).args(["gen", &gfile, &out, &k.to_string()]).stdout(std::process::Stdio::null()).stderr(std::process::Stdio::null()).spawn();
            match ch {
                Ok(c) => children.push((j, c)),
                Err(_) => {
                    rep.inconclusive("cannot spawn generator process");
                    return;
                }
            }
        }
        let mut codes = vec![];
        for (j, mut c) in children {
            codes.push((j, c.wait().ok().and_then(|s| s.code())));
        }
        rep.evals(nproc as u64);
        let ok: Vec<usize> = codes.iter().filter(|(_, c)| *c == Some(0)).map(|(j, _)| *j).collect();
        if ok.is_empty() {
            rep.count("grammar_rejected_by_all_processes");
            let _ = std::fs::remove_dir_all(&dir);
            return;
        }
        if ok.len() != nproc {
            // acceptance itself differs between processes
            if codes.iter().any(|(_, c)| c.is_none() || *c == Some(101)) {
                rep.inconclusive("a generator process crashed (C26)");
            } else {
                rep.violation(json!({"kind": "acceptance-differs-between-processes"}), format!("{} of {nproc} processes generated a parser, the others reported an error", ok.len()), json!({"grammar": par, "exit_codes": format!("{codes:?}")}));
            }
            let _ = std::fs::remove_dir_all(&dir);
            return;
        }
        let mut distinct: BTreeMap<String, BTreeMap<u64, Vec<usize>>> = BTreeMap::new();
        for f in ["parser.rs", "trait.rs", "expanded.par"] {
            for j in &ok {
                let content = std::fs::read_to_string(format!("{dir}/out{j}/{f}")).unwrap_or_default();
                distinct.entry(f.to_string()).or_default().entry(hash_str(&content)).or_default().push(*j);
            }
        }
        let worst = distinct.values().map(|m| m.len()).max().unwrap_or(1);
        if worst > 1 {
            // keep two differing expanded grammars as witness
            let m = &distinct["expanded.par"];
            let mut ws = vec![];
            for (_, js) in m.iter().take(2) {
                ws.push(std::fs::read_to_string(format!("{dir}/out{}/expanded.par", js[0])).unwrap_or_default());
            }
            rep.violation(
                json!({"kind": "generated-files-differ-between-processes"}),
                format!("{nproc} processes produced {} different parser files, {} trait files, {} expanded grammars", distinct["parser.rs"].len(), distinct["trait.rs"].len(), distinct["expanded.par"].len()),
                json!({"grammar": par, "distinct_outputs": distinct.iter().map(|(f, m)| (f.clone(), m.len())).collect::<BTreeMap<_, _>>(), "two_expanded_grammars": ws}),
            );
        }
        rep.nontrivial_h(hash_str(&par));
        rep.count(&format!("distinct_outputs_{worst}"));
        if i % 20 == 0 {
            rep.sample(json!({"grammar": par, "processes": nproc, "distinct_parser_files": distinct["parser.rs"].len(), "distinct_trait_files": distinct["trait.rs"].len(), "distinct_expanded_grammars": distinct["expanded.par"].len()}));
        }
        let _ = std::fs::remove_dir_all(&dir);
    });
    let _ = std::fs::remove_dir_all(&work);
    let rule = "case = grammar (tied shared prefixes of equal length in several non-terminals, EBNF variants, deep-k LL grammars, ordinary LL, left-recursive LALR, several tokens on one %skip list, scanner layouts with states / transitions / skip lists) generated by N separate processes (6 quick / 16 thorough; each with its own std RandomState) through parol::build::Builder exactly as a build script does (parser, trait and expanded-grammar files, rustfmt included); every byte of the three files must be identical across processes and all processes must agree on accept/reject; evaluations = generator processes run; non-trivial = grammar accepted by all processes; distinct by grammar text";
    let min = if quick { 12 } else { 200 };
    finish(ctx, rep, rule, (min as f64 * ctx.scale) as u64, json!({"processes_per_grammar": nproc}), t0.elapsed().as_secs_f64())
}
