//! C09 - EBNF canonicalization preserves the language; helper names are fresh.

use super::common::*;
use super::conv::*;
use crate::ev::*;
use crate::gram::GType;
use crate::oracle::bounded_langs;
use crate::prng::hash_str;
use crate::run::guarded;
use crate::wl;
use parol::obtain_grammar_config_from_string;
use serde_json::json;
use std::time::Instant;

/// multiset of production shapes (rhs length + terminal positions) and the non-terminal count
pub fn shape(cfg: &parol::Cfg) -> (usize, Vec<String>) {
    let (b, keys) = cfg_to_bnf_keys(cfg);
    let mut v: Vec<String> = b
        .prods
        .iter()
        .map(|(_, rhs)| {
            rhs.iter()
                .map(|s| match s {
                    crate::gram::Sym::T(t) => format!("t{:?}", keys[*t - 5]),
                    crate::gram::Sym::N(_) => "N".to_string(),
                })
                .collect::<Vec<_>>()
                .join(" ")
        })
        .collect();
    v.sort();
    (b.nts.len(), v)
}

pub fn lang_len_for(nterm: usize, quick: bool) -> usize {
    let l = match nterm {
        0..=2 => 7,
        3 => 6,
        4 => 5,
        _ => 4,
    };
    if quick { l } else { l + 1 }
}

pub fn run(ctx: &Ctx) -> i32 {
    let t0 = Instant::now();
    let mut profs = vec![];
    for gt in [GType::LL, GType::LALR] {
        profs.push(wl::Profile { p_ebnf: 55, nest: 3, n_terms: (2, 3), n_nts: (1, 4), left_rec: gt == GType::LALR, ..wl::Profile::base("nesting", gt) });
        profs.push(wl::Profile { p_ebnf: 55, nest: 3, n_terms: (2, 4), names: wl::Names::Clash, n_nts: (2, 6), left_rec: gt == GType::LALR, ..wl::Profile::base("name-clash", gt) });
        profs.push(wl::Profile { p_ebnf: 40, nest: 2, p_empty_alt: 35, n_terms: (2, 3), ..wl::Profile::base("nullable", gt) });
    }
    let profiles = static_profiles(profs);
    let quick = ctx.quick();
    let n = ctx.n(3000, 60000);
    let rep = run_sharded(ctx, "c09", n, move |rng, i, rep| {
        let p = &profiles[(i as usize) % profiles.len()];
        let g = wl::gen_grammar(rng, p);
        let par = g.to_par();
        let gc = match guarded(|| obtain_grammar_config_from_string(&par, false)) {
            Ok(Ok(gc)) => gc,
            Ok(Err(_)) => {
                rep.count("rejected_by_front_end");
                return;
            }
            Err(_) => {
                rep.inconclusive("front end panicked (C26)");
                return;
            }
        };
        rep.eval();
        let (pb, keys) = cfg_to_bnf_keys(&gc.cfg);
        let pb = renumber_to_grammar(&pb, &keys, &g);
        let mine = g.to_bnf();
        let l = lang_len_for(g.terms.len(), quick);
        let (Some(la), Some(lb)) = (bounded_langs(&mine, l, 30000), bounded_langs(&pb, l, 30000)) else {
            rep.inconclusive("bounded language exceeds cap");
            return;
        };
        let wit = |d: String| json!({"grammar": par, "canonicalized": gc.cfg.pr.iter().map(|p| p.to_string()).collect::<Vec<_>>(), "detail": d, "max_len": l});
        // start symbol and every source non-terminal
        for (ui, name) in mine.nts.iter().take(mine.user_nts).enumerate() {
            let Some(pi) = pb.nts.iter().position(|n| n == name) else {
                rep.violation(json!({"kind": "source-nonterminal-missing"}), format!("source non-terminal {name} is missing after canonicalization"), wit(name.clone()));
                continue;
            };
            if la[ui] != lb[pi] {
                let only_a: Vec<_> = la[ui].difference(&lb[pi]).take(3).collect();
                let only_b: Vec<_> = lb[pi].difference(&la[ui]).take(3).collect();
                rep.violation(
                    json!({"kind": "language-changed", "grammar_type": format!("{:?}", g.gtype)}),
                    format!("bounded language (len <= {l}) of {name} changed by canonicalization: only in source {only_a:?}, only in result {only_b:?}"),
                    wit(name.clone()),
                );
                break;
            }
        }
        // metamorphic renaming run: helper names must not collide with user names
        let names = g.nt_names();
        let renamed = g.rename_nts(&|n: &str| format!("Zq{}x", names.iter().position(|x| x == n).unwrap_or(99)));
        if let Ok(Ok(gc2)) = guarded(|| obtain_grammar_config_from_string(&renamed.to_par(), false)) {
            let (s1, s2) = (shape(&gc.cfg), shape(&gc2.cfg));
            if s1 != s2 {
                rep.violation(
                    json!({"kind": "helper-name-collision"}),
                    format!("canonicalization of the grammar and of its collision-free renaming differ in shape: {} vs {} non-terminals, {} vs {} productions", s1.0, s2.0, s1.1.len(), s2.1.len()),
                    wit(format!("renamed: {}", renamed.to_par())),
                );
            }
        } else {
            rep.inconclusive("renamed grammar rejected");
        }
        let cs = g.census();
        if cs.max_nest >= 2 && cs.grp >= 1 && cs.opt >= 1 && cs.rep >= 1 {
            rep.nontrivial_h(hash_str(&par));
            rep.sample(json!({"grammar": par, "max_len": l, "sentences_of_start": la[mine.start].len(), "helpers": pb.nts.len() - mine.user_nts}));
        }
    });
    let rule = "case = generated EBNF grammar (nesting up to 3, LL and LALR typed, incl. user non-terminals literally named like helper names); bounded languages (all sentences up to length 4-8 depending on alphabet size) of the start symbol and of every source non-terminal are computed independently from the harness AST and from GrammarConfig.cfg after obtain_grammar_config_from_string and must be equal; metamorphic run: the grammar with all user non-terminals renamed to collision-free names must canonicalize to the same number of non-terminals and the same multiset of production shapes; non-trivial = nesting >= 2 with at least one group, optional and repetition; distinct by grammar text";
    let min = if quick { 150 } else { 2000 };
    finish(ctx, rep, rule, (min as f64 * ctx.scale) as u64, json!({}), t0.elapsed().as_secs_f64())
}
