//! C05 - LL(k) decision: accept iff strong-LL(k), with the minimal lookahead.

use super::common::*;
use super::conv::*;
use crate::ev::*;
use crate::inst;
use crate::oracle;
use crate::prng::hash_str;
use crate::run::guarded;
use crate::wl;
use parol::analysis::{FirstCache, FollowCache, decidable, explain_conflicts};
use parol::calculate_lookahead_dfas;
use serde_json::json;
use std::time::Instant;

pub fn run(ctx: &Ctx) -> i32 {
    let t0 = Instant::now();
    let mut profs = wl::ll_profiles();
    profs.push(wl::Profile { p_guard: 0, n_terms: (2, 3), n_nts: (2, 4), ..wl::Profile::base("non-ll", crate::gram::GType::LL) });
    let profiles = static_profiles(profs);
    let quick = ctx.quick();
    let n = ctx.n(4000, 80000);
    let rep = run_sharded(ctx, "c05", n, move |rng, i, rep| {
        let p = &profiles[(i as usize) % profiles.len()];
        let g = wl::gen_grammar(rng, p);
        let par = g.to_par();
        let gc = match guarded(|| inst::front(&par)) {
            Ok(Ok((_, gc))) => gc,
            Ok(Err(e)) => {
                rep.count(&format!("rejected_{:?}", e.stage));
                return;
            }
            Err(_) => {
                rep.inconclusive("front end panicked (C26)");
                return;
            }
        };
        let bnf = cfg_to_bnf(&gc.cfg);
        let small = bnf.nterm - 5 <= 2 && bnf.nts.len() <= 4;
        let kmax = if quick { if small { 5 } else { 4 } } else if small { 8 } else { 5 };
        let cap = 20000;
        let Some(orc) = oracle::strong_ll_k(&bnf, kmax, cap) else {
            rep.inconclusive("oracle set cap exceeded");
            return;
        };
        let nontrivial = bnf.nts.iter().enumerate().any(|(a, _)| bnf.prods_of(a).count() >= 2);
        for k_limit in 1..=kmax {
            rep.eval();
            let all_ok = orc.iter().all(|x| matches!(x, Some(k) if *k <= k_limit));
            let wit = |d: String| json!({"grammar": par, "transformed": format!("{}", gc.cfg.pr.iter().map(|p| p.to_string()).collect::<Vec<_>>().join(" ")), "K": k_limit, "detail": d, "oracle_min_k": orc});
            let r = guarded(|| calculate_lookahead_dfas(&gc, k_limit));
            match r {
                Err(pm) => {
                    rep.inconclusive(&format!("analysis panicked (C26): {}", truncate(&pm, 80)));
                    continue;
                }
                Ok(res) => {
                    if res.is_ok() != all_ok {
                        let kind = if res.is_ok() { "accepts-non-strong-llk" } else { "rejects-strong-llk" };
                        rep.violation(json!({"kind": kind}), format!("calculate_lookahead_dfas(K={k_limit}) {kind}: oracle says all decidable = {all_ok}"), wit(format!("parol: {:?}", res.as_ref().map(|_| "Ok").map_err(|e| e.to_string()))));
                    }
                }
            }
            let fc = FirstCache::new();
            let flc = FollowCache::new();
            for (a, name) in bnf.nts.iter().enumerate() {
                let want = orc[a].filter(|k| *k <= k_limit);
                let got = guarded(|| decidable(&gc, name, k_limit, &fc, &flc));
                let Ok(got) = got else {
                    rep.inconclusive("decidable panicked (C26)");
                    continue;
                };
                match (&got, want) {
                    (Ok(k), Some(w)) if *k == w => {}
                    (Err(_), None) => {}
                    _ => {
                        rep.violation(json!({"kind": "wrong-k"}), format!("decidable({name}, K={k_limit}) = {:?}, oracle minimal k = {:?}", got.as_ref().map_err(|e| e.to_string()), want), wit(name.clone()));
                    }
                }
                // explain_conflicts at k_limit: must be non-empty iff the sets overlap at k_limit
                if bnf.prods_of(a).count() >= 2 && k_limit <= 3 {
                    let Some(ff) = oracle::first_follow(&bnf, k_limit, cap) else { continue };
                    let la = oracle::lookahead_sets(&bnf, &ff);
                    let ps: Vec<usize> = bnf.prods_of(a).map(|(i, _)| i).collect();
                    let mut overlap = false;
                    for x in 0..ps.len() {
                        for y in x + 1..ps.len() {
                            if la[ps[x]].intersection(&la[ps[y]]).next().is_some() {
                                overlap = true;
                            }
                        }
                    }
                    let fc2 = FirstCache::new();
                    let flc2 = FollowCache::new();
                    if let Ok(Ok(confl)) = guarded(|| explain_conflicts(&gc, name, k_limit, &fc2, &flc2)) {
                        if confl.is_empty() == overlap {
                            rep.violation(json!({"kind": "explain-conflicts-wrong"}), format!("explain_conflicts({name}, {k_limit}) reports {} conflicts, oracle overlap = {overlap}", confl.len()), wit(name.clone()));
                        }
                        for (p1, _, p2, _) in &confl {
                            if la[*p1].intersection(&la[*p2]).next().is_none() {
                                rep.violation(json!({"kind": "explain-conflicts-disjoint-pair"}), format!("explain_conflicts names productions {p1}/{p2} whose oracle lookahead sets are disjoint at k={k_limit}"), wit(name.clone()));
                            }
                        }
                    }
                }
            }
        }
        if nontrivial {
            rep.nontrivial_h(hash_str(&par));
            let mk = orc.iter().map(|x| x.unwrap_or(99)).max().unwrap_or(0);
            if mk >= 2 && mk < 99 {
                rep.count("grammars_min_k_ge_2");
            }
            if mk == 99 {
                rep.count("grammars_not_decidable_within_kmax");
            }
            rep.sample(json!({"grammar": par, "oracle_min_k_per_nt": orc, "kmax": kmax}));
        }
    });
    let rule = "case = transformed (left-factored) grammar of a generated EBNF grammar x every K in 1..Kmax (Kmax 4-5 quick, 5-8 thorough); oracle = naive FIRST_k/FOLLOW_k Kleene iteration on Vec<u16> tuple sets + pairwise disjointness (minimal k per non-terminal); observed: calculate_lookahead_dfas Ok/Err, decidable() per non-terminal, explain_conflicts() for K<=3; non-trivial = grammar with a non-terminal having >= 2 alternatives; distinct by grammar text";
    let min = if quick { 400 } else { 5000 };
    finish(ctx, rep, rule, (min as f64 * ctx.scale) as u64, json!({}), t0.elapsed().as_secs_f64())
}
