//! C15 - Comment tokens end exactly at the first end delimiter.

use super::c13::{byte_offsets, flat_real, flat_ref};
use super::common::*;
use crate::ev::*;
use crate::gram::*;
use crate::inst::GenCfg;
use crate::prng::{Rng, hash_str};
use crate::run;
use crate::scan::*;
use crate::wlscan::{ScanCase, modes_of};
use serde_json::json;
use std::time::Instant;

const BLOCK_PAIRS: [(&str, &str); 22] = [
    ("/*", "*/"), ("(*", "*)"), ("<!--", "-->"), ("{-", "-}"), ("#|", "|#"), ("--[", "]]"), ("%", "%"),
    ("/*", "**/"), ("<<", "))>"), ("{", "}"), ("[", "]"), ("--", "--"), ("((", "))"), ("(((", ")))"),
    ("<", "->"), ("<", "-->"), ("!", "aba"), ("!", "aab"), ("!", "abb"), ("!", "abc"), ("{{", "}}"), ("<", "=>"),
];
const LINE_STARTS: [&str; 5] = ["//", "#", "--", ";", "%%"];

fn gen_case(rng: &mut Rng, i: u64) -> (ScanCase, Vec<char>) {
    let mut g = Grammar::new("S", if i % 4 == 3 { GType::LALR } else { GType::LL });
    let mut alphabet: Vec<char> = vec!['w', ' ', '\n'];
    let q = *rng.pick(&[Quote::Raw, Quote::Legacy, Quote::Regex]);
    let mode = i % 3; // 0 block only, 1 line only, 2 both
    if mode != 1 {
        let (s, e) = BLOCK_PAIRS[(i as usize / 3) % BLOCK_PAIRS.len()];
        g.states[0].block_comments.push(((s.into(), q), (e.into(), q)));
        alphabet.extend(s.chars());
        alphabet.extend(e.chars());
    }
    if mode != 0 {
        let s = LINE_STARTS[(i as usize / 3) % LINE_STARTS.len()];
        // avoid a line comment start that is a prefix of (or equal to) the block start
        let clash = g.states[0].block_comments.iter().any(|((b, _), _)| b.starts_with(s) || s.starts_with(b.as_str()));
        if !clash {
            g.states[0].line_comments.push((s.into(), q));
            alphabet.extend(s.chars());
            alphabet.push('\r');
        } else if mode == 1 {
            g.states[0].line_comments.push(("//".into(), q));
            alphabet.extend("//".chars());
            alphabet.push('\r');
        }
    }
    alphabet.push('z');
    alphabet.sort();
    alphabet.dedup();
    g.terms.push(TermDef::raw("w"));
    g.rules.push(Rule { name: "S".into(), alts: vec![vec![Factor::Rep(vec![vec![Factor::T(0, AstCtl::default())]])]] });
    (ScanCase { g, res: vec![Re::Lit('w')], la_res: vec![None] }, alphabet)
}

pub fn run(ctx: &Ctx) -> i32 {
    let t0 = Instant::now();
    let quick = ctx.quick();
    let n = ctx.n(600, 6000);
    let rep = run_sharded(ctx, "c15", n, move |rng, i, rep| {
        let (sc, alphabet) = gen_case(rng, i);
        let modes = modes_of(&sc);
        let c = match prepare_grammar(sc.g.clone(), "comments", 2, &GenCfg::default()) {
            Prep::Ready(c) => c,
            Prep::Rejected(st, msg) => {
                rep.count(&format!("grammar_rejected_{st:?}"));
                if std::env::var("PV_DEBUG").is_ok() {
                    eprintln!("REJECT {st:?} {}\n{}", truncate(&msg, 300), sc.g.to_par());
                }
                return;
            }
            Prep::Panicked(m, _) => {
                rep.inconclusive(&format!("generator panicked (C26): {}", truncate(&m, 100)));
                return;
            }
        };
        let st = &sc.g.states[0];
        let ninputs = if quick { 400 } else { 3000 };
        let mut reported = 0;
        for n in 0..ninputs {
            // inputs over the delimiters' own characters: random strings + planted comments
            let mut s = String::new();
            let pieces = rng.range(1, 6);
            for _ in 0..pieces {
                match rng.below(6) {
                    0 | 1 => {
                        let l = rng.range(1, 6);
                        for _ in 0..l {
                            s.push(*rng.pick(&alphabet));
                        }
                    }
                    2 | 3 if !st.block_comments.is_empty() => {
                        let ((b, _), (e, _)) = &st.block_comments[0];
                        s.push_str(b);
                        let l = rng.range(0, 6);
                        for _ in 0..l {
                            s.push(*rng.pick(&alphabet));
                        }
                        // overlapping ends: repeat the first atoms of the end delimiter
                        if rng.chance(1, 2) {
                            let ec: Vec<char> = e.chars().collect();
                            for _ in 0..rng.range(1, 2) {
                                s.push(ec[0]);
                            }
                        }
                        s.push_str(e);
                    }
                    4 if !st.line_comments.is_empty() => {
                        s.push_str(&st.line_comments[0].0);
                        let l = rng.range(0, 5);
                        for _ in 0..l {
                            s.push(*rng.pick(&alphabet));
                        }
                        s.push_str(*rng.pick(&["\n", "\r\n", "\r", ""]));
                    }
                    _ => s.push_str(*rng.pick(&["w", " w ", "\n", " "])),
                }
            }
            if n % 50 == 0 {
                s.truncate(0);
            }
            let chars: Vec<char> = s.chars().collect();
            let offs = byte_offsets(&s);
            let reference = flat_ref(&reference_scan(&modes, &chars), &offs);
            let real = match run::scan_all(&c.built, &s, 1, 0) {
                Ok(t) => flat_real(&c, &t),
                Err(e) => {
                    rep.inconclusive(&format!("token stream error: {}", truncate(&e, 60)));
                    continue;
                }
            };
            rep.eval();
            let has_comment = reference.iter().any(|t| matches!(t.0, Kind::LineComment | Kind::BlockComment));
            if real != reference {
                let pos = real.iter().zip(reference.iter()).position(|(a, b)| a != b).unwrap_or(real.len().min(reference.len()));
                let a = real.get(pos);
                let b = reference.get(pos);
                let is_comment = |t: Option<&(Kind, usize, usize, bool)>| matches!(t, Some((Kind::LineComment | Kind::BlockComment, ..)));
                if is_comment(a) || is_comment(b) {
                    let which = if matches!(a, Some((Kind::LineComment, ..))) || matches!(b, Some((Kind::LineComment, ..))) { "line" } else { "block" };
                    // classifier for the known finding: the dedicated expression for C-style
                    // delimiters
                    let delims = st.block_comments.first().map(|((b, _), (e, _))| format!("{b} {e}")).unwrap_or_default();
                    let delims = if which == "block" { delims } else { st.line_comments.first().map(|(l, _)| l.clone()).unwrap_or_default() };
                    if reported < 3 {
                        rep.violation(
                            json!({"kind": format!("{which}-comment-token-differs"), "delimiters": delims}),
                            format!("comment token: scanner delivered {a:?}, first-end-delimiter rule gives {b:?}"),
                            json!({"grammar": c.par, "input": s, "real": format!("{real:?}"), "reference": format!("{reference:?}")}),
                        );
                        reported += 1;
                    } else {
                        rep.count("further_comment_differences_same_grammar");
                    }
                } else {
                    rep.inconclusive("non-comment token differs (C13)");
                }
            }
            if has_comment {
                rep.nontrivial_h(hash_str(&c.par) ^ hash_str(&s));
                if n == 1 {
                    rep.sample(json!({"grammar": c.par, "input": s, "reference_tokens": format!("{reference:?}")}));
                }
            }
        }
    });
    let rule = "case = (comment declaration: 22 block delimiter pairs incl. ends of 1-3 atoms with repeated atoms (-->, **/, ))>, aba, aab, abb), start = end, and 5 line comment starts, raw/legacy/regex quoted, LL and LALR) x input over the delimiters' own characters plus w, z, blank, \\n, \\r with planted comments whose bodies end in repeated first atoms of the end delimiter; the real token stream must equal a reference tokenizer in which a block comment ends at the first occurrence of the end delimiter (substring search) and a line comment at the first line break (\\r\\n, \\n, lone \\r) or end of input; only differences at a comment token are violations; non-trivial = input containing a comment per the reference; distinct by (grammar, input)";
    let min = if quick { 20000 } else { 200000 };
    finish(ctx, rep, rule, (min as f64 * ctx.scale) as u64, json!({}), t0.elapsed().as_secs_f64())
}
