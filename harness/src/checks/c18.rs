//! C18 - All generated parts agree on terminal identity.

use super::common::*;
use super::conv::*;
use crate::ev::*;
use crate::gram::*;
use crate::inst::GenCfg;
use crate::prng::hash_str;
use crate::wl;
use crate::wlscan::*;
use parol::{Symbol, Terminal};
use serde_json::json;
use std::collections::BTreeSet;
use std::time::Instant;

fn expand(key: &TermKey) -> String {
    if key.1 { escape_raw(&key.0) } else { key.0.clone() }
}

pub fn check_identity(c: &Case, rep: &mut Report) -> bool {
    let gc = &c.built.gc;
    let (_, keys) = cfg_to_bnf_keys(&gc.cfg);
    let index_of = |k: &TermKey| keys.iter().position(|x| x == k).map(|i| i + 5);
    let key_of_sym = |s: &Symbol| -> Option<TermKey> {
        if let Symbol::T(Terminal::Trm(t, k, _, _, _, _, la)) = s {
            Some((t.clone(), matches!(k, parol::TerminalKind::Raw), la.as_ref().map(|l| (l.is_positive, l.pattern.clone(), matches!(l.kind, parol::TerminalKind::Raw)))))
        } else {
            None
        }
    };
    let mut ok = true;
    let mut bad = |rep: &mut Report, kind: &str, what: String| {
        rep.violation(json!({"kind": kind}), what.clone(), json!({"case": case_json(c), "detail": what, "terminals_by_first_occurrence": keys.iter().enumerate().map(|(i, k)| format!("{}: {:?}", i + 5, k)).collect::<Vec<_>>()}));
        ok = false;
    };
    let model = &c.built.model;
    let t = &c.built.tables;
    let nnames = t.terminal_names.len();
    // (1) scanner terminal table of the export model
    let mterms = model["scanner"]["terminals"].as_array().cloned().unwrap_or_default();
    if mterms.len() != keys.len() {
        bad(rep, "terminal-count", format!("export model lists {} scanner terminals, the productions contain {} distinct terminals", mterms.len(), keys.len()));
    }
    if nnames != keys.len() + 6 {
        bad(rep, "terminal-names-count", format!("TERMINAL_NAMES has {} rows for {} user terminals (expected {} + 5 built-in + error)", nnames, keys.len(), keys.len()));
    }
    for (i, mt) in mterms.iter().enumerate() {
        let Some(k) = keys.get(i) else { break };
        let la = if mt["lookahead"].is_null() { None } else { Some((mt["lookahead"]["is_positive"].as_bool().unwrap_or(true), mt["lookahead"]["pattern"].as_str().unwrap_or("").to_string(), mt["lookahead"]["kind"].as_str() == Some("Raw"))) };
        let got: TermKey = (mt["pattern"].as_str().unwrap_or("").to_string(), mt["kind"].as_str() == Some("Raw"), la);
        if mt["index"].as_u64() != Some(i as u64 + 5) || got != *k {
            bad(rep, "model-scanner-terminal", format!("export model scanner terminal #{i}: index {} identity {got:?}, expected index {} identity {k:?}", mt["index"], i + 5));
        }
        if mt["expanded_pattern"].as_str() != Some(expand(k).as_str()) {
            bad(rep, "model-expanded-pattern", format!("export model expanded pattern {:?} for {k:?}, expected {:?}", mt["expanded_pattern"], expand(k)));
        }
    }
    // (2) generated scanner: per mode, user terminal index -> pattern, in exactly its states
    let mut states_of: Vec<BTreeSet<usize>> = vec![BTreeSet::new(); keys.len()];
    for p in &gc.cfg.pr {
        for s in p.get_r() {
            if let (Some(k), Symbol::T(Terminal::Trm(_, _, st, ..))) = (key_of_sym(s), s) {
                if let Some(i) = index_of(&k) {
                    states_of[i - 5].extend(st.iter().cloned());
                }
            }
        }
    }
    for (mi, pats) in c.built.st.scanner.mode_patterns.iter().enumerate() {
        let user: Vec<&(String, usize)> = pats.iter().filter(|(_, ty)| *ty >= 5 && *ty < nnames - 1).collect();
        let mut last = 0usize;
        for (pat, ty) in &user {
            let Some(k) = keys.get(*ty - 5) else {
                bad(rep, "scanner-token-out-of-range", format!("scanner mode {mi} has token type {ty} without a terminal"));
                continue;
            };
            if *pat != expand(k) {
                bad(rep, "scanner-pattern", format!("scanner mode {mi}: token type {ty} has pattern {pat:?}, terminal {ty} is {k:?} (pattern {:?})", expand(k)));
            }
            if *ty < last {
                bad(rep, "scanner-order", format!("scanner mode {mi}: user terminals are not in index order"));
            }
            last = *ty;
        }
        let have: BTreeSet<usize> = user.iter().map(|(_, ty)| *ty).collect();
        let want: BTreeSet<usize> = (0..keys.len()).filter(|i| states_of[*i].contains(&mi)).map(|i| i + 5).collect();
        if have != want {
            bad(rep, "scanner-mode-membership", format!("scanner mode {mi} contains token types {have:?}, the grammar puts {want:?} into that state"));
        }
    }
    // (3) production occurrences in export model and generated source
    let mprods = model["productions"].as_array().cloned().unwrap_or_default();
    for (pi, p) in gc.cfg.pr.iter().enumerate() {
        let want: Vec<Option<usize>> = p.get_r().iter().map(|s| key_of_sym(s).and_then(|k| index_of(&k))).collect();
        if let Some(mp) = mprods.get(pi) {
            let got: Vec<Option<usize>> = mp["rhs"].as_array().map(|a| a.iter().map(|s| s.get("Terminal").and_then(|t| t["index"].as_u64()).map(|x| x as usize)).collect()).unwrap_or_default();
            if got != want {
                bad(rep, "model-production-terminal", format!("export model production {pi} ({p}) uses terminal indices {got:?}, expected {want:?}"));
            }
        }
        if !t.is_lr {
            if let Some((_, rhs, _)) = t.ll_productions.get(pi) {
                let got: Vec<Option<usize>> = rhs.iter().rev().map(|(is_t, i)| if *is_t { Some(*i) } else { None }).collect();
                if got != want {
                    bad(rep, "source-production-terminal", format!("generated source production {pi} ({p}) uses terminal indices {got:?}, expected {want:?}"));
                }
            }
        }
    }
    // (4) automata edges / LR actions stay inside the terminal range
    let valid = |x: usize| x == 0 || (x >= 5 && x < 5 + keys.len());
    for (ni, (_, trs, _)) in t.automata.iter().enumerate() {
        for tr in trs {
            if !valid(tr.1 as usize) {
                bad(rep, "automaton-terminal-out-of-range", format!("lookahead automaton {ni} has an edge on token type {}", tr.1));
            }
        }
    }
    for (si, (acts, _)) in t.lr_states.iter().enumerate() {
        for (term, _) in acts {
            if !valid(*term as usize) {
                bad(rep, "lr-action-terminal-out-of-range", format!("LR state {si} has an action on token type {term}"));
            }
        }
    }
    // (4b) identity inside the analysis results: the terminals on the edges that leave the start
    // state of a lookahead automaton are exactly the terminals that can begin a lookahead string of
    // that non-terminal (independent FIRST_1/FOLLOW_1 over terminal identities); every terminal of a
    // reachable production is shifted somewhere in an LR table
    {
        let (bnf, _) = cfg_to_bnf_keys(&gc.cfg);
        if !t.is_lr {
            if let Some(ff) = crate::oracle::first_follow(&bnf, 1, 3000) {
                for (ni, (_, trs, _)) in t.automata.iter().enumerate() {
                    if trs.is_empty() || ni >= bnf.nts.len() {
                        continue;
                    }
                    let mut want: BTreeSet<usize> = BTreeSet::new();
                    for (pi, (lhs, _)) in bnf.prods.iter().enumerate() {
                        if *lhs != ni {
                            continue;
                        }
                        for w in crate::oracle::kconcat(&ff.first_prod[pi], &ff.follow[ni], 1) {
                            if let Some(x) = w.first() {
                                want.insert(if *x == crate::oracle::END { 0 } else { *x as usize });
                            }
                        }
                    }
                    let got: BTreeSet<usize> = trs.iter().filter(|tr| tr.0 == 0).map(|tr| tr.1 as usize).collect();
                    if got != want {
                        bad(rep, "automaton-start-terminals", format!("lookahead automaton of {} leaves its start state on token types {got:?}; the terminals that can begin its lookahead strings are {want:?}", bnf.nts[ni]));
                    }
                }
            }
        } else {
            let reach = bnf.reachable();
            let mut used: BTreeSet<usize> = BTreeSet::new();
            for (lhs, rhs) in &bnf.prods {
                if reach[*lhs] {
                    for s in rhs {
                        if let crate::gram::Sym::T(x) = s {
                            used.insert(*x);
                        }
                    }
                }
            }
            let shifted: BTreeSet<usize> = t.lr_states.iter().flat_map(|(acts, _)| acts.iter().filter(|(_, ai)| matches!(t.lr_actions.get(*ai), Some(crate::inst::LrAct::Shift(_)))).map(|(term, _)| *term as usize)).collect();
            let missing: Vec<usize> = used.difference(&shifted).cloned().collect();
            if !missing.is_empty() {
                bad(rep, "lr-terminal-never-shifted", format!("terminals {missing:?} occur in reachable productions but no LR state shifts them (shifted: {shifted:?})"));
            }
        }
    }
    // (5) skip lists and scanner transitions named in the source grammar
    let term_of_nt = |name: &str| -> Option<usize> {
        c.g.rules.iter().find(|r| r.name == name).and_then(|r| {
            if r.alts.len() == 1 && r.alts[0].len() == 1 {
                if let Factor::T(ti, _) = &r.alts[0][0] {
                    let id = c.g.terms[*ti].identity();
                    return index_of(&id);
                }
            }
            None
        })
    };
    for (si, st) in c.g.states.iter().enumerate() {
        let mut want: Vec<usize> = st.skip.iter().filter_map(|n| term_of_nt(n)).collect();
        want.sort();
        want.dedup();
        let got_src: Vec<usize> = t.skip_tokens.get(si).map(|v| v.iter().map(|x| *x as usize).collect()).unwrap_or_default();
        let got_model: Vec<usize> = model["scanner"]["scanner_states"][si]["skip_tokens"].as_array().map(|a| a.iter().map(|x| x.as_u64().unwrap_or(0) as usize).collect()).unwrap_or_default();
        if got_src != want || got_model != want {
            bad(rep, "skip-list", format!("state {}: skip list in source {got_src:?}, in export model {got_model:?}, the grammar skips {want:?}", st.name));
        }
        let mut want_tr: Vec<(usize, String)> = vec![];
        for (ids, tr) in &st.on {
            for n in ids {
                if let Some(ti) = term_of_nt(n) {
                    let target = |name: &str| c.g.states.iter().position(|s| s.name == name).unwrap_or(99);
                    want_tr.push((ti, match tr { Trans::Enter(m) => format!("set {}", target(m)), Trans::Push(m) => format!("push {}", target(m)), Trans::Pop => "pop".to_string() }));
                }
            }
        }
        want_tr.sort();
        let mut got_tr: Vec<(usize, String)> = c.built.st.scanner.modes.get(si).map(|m| m.transitions.iter().map(|tr| match tr { scnr2::Transition::SetMode(t, m) => (*t, format!("set {m}")), scnr2::Transition::PushMode(t, m) => (*t, format!("push {m}")), scnr2::Transition::PopMode(t) => (*t, "pop".to_string()) }).collect()).unwrap_or_default();
        got_tr.sort();
        if got_tr != want_tr {
            bad(rep, "scanner-transitions", format!("state {}: transitions in generated scanner {got_tr:?}, the grammar declares {want_tr:?}", st.name));
        }
    }
    ok
}

pub fn run(ctx: &Ctx) -> i32 {
    let t0 = Instant::now();
    let mut profs = vec![];
    for p in wl::ll_profiles().into_iter().chain(wl::lr_profiles()) {
        if p.terms == wl::Terms::Quoting || p.terms == wl::Terms::Mixed {
            profs.push(p);
        }
    }
    let profiles = static_profiles(profs);
    let n = ctx.n(4000, 80000);
    let rep = run_sharded(ctx, "c18", n, move |rng, i, rep| {
        let (g, pname) = if i % 2 == 0 {
            let p = &profiles[(i as usize / 2) % profiles.len()];
            (wl::gen_grammar(rng, p), p.name)
        } else {
            let sp = ScanProfile { max_modes: 3, p_lookahead: 40, p_skip: 40, p_allow_unmatched: 10, p_auto_off: 10, comments: true, lalr: i % 4 == 3 };
            (gen_scan_case(rng, &sp).g, "scanner-states")
        };
        let k = draw_k(rng, &g);
        let c = match prepare_grammar(g, pname, k, &GenCfg::default()) {
            Prep::Ready(c) => c,
            Prep::Rejected(st, _) => {
                rep.count(&format!("grammar_rejected_{st:?}"));
                return;
            }
            Prep::Panicked(_, _) => {
                rep.inconclusive("generator panicked (C26)");
                return;
            }
        };
        rep.eval();
        check_identity(&c, rep);
        let ids: Vec<_> = c.g.terms.iter().map(|t| t.identity()).collect();
        let same_text = ids.iter().enumerate().any(|(i, a)| ids.iter().skip(i + 1).any(|b| a.0 == b.0 && a != b));
        let interesting = same_text || c.g.states.len() > 1 || c.g.terms.iter().any(|t| t.la.is_some());
        if interesting {
            rep.nontrivial_h(hash_str(&c.par));
            if same_text {
                rep.count("grammars_with_equal_text_terminals");
                rep.sample(json!({"grammar": c.par, "scanner_terminals": c.built.model["scanner"]["terminals"]}));
            }
        }
    });
    let rule = "case = accepted grammar from the quoting / mixed-terminal profiles (equal text under different quoting styles) or a scanner-level layout (lookahead terminals, several scanner states, skip lists, transitions), LL and LALR; terminal identity = (text, raw/regex class, lookahead) numbered by first occurrence in the transformed productions (computed by the harness); checked against: export-model scanner table (index, identity, expanded pattern), generated scanner modes (pattern per token type, index order, membership per state), every terminal occurrence in export-model and generated-source productions, range of automaton edges / LR actions, first-level automaton edges = terminals that can begin a lookahead string (own FIRST_1/FOLLOW_1 over terminal identities), every terminal of a reachable production shifted by some LR state, skip lists and scanner transitions in source and model; non-trivial = grammar with equal-text terminals, several states or lookahead terminals; distinct by grammar text";
    let min = if ctx.quick() { 500 } else { 8000 };
    finish(ctx, rep, rule, (min as f64 * ctx.scale) as u64, json!({}), t0.elapsed().as_secs_f64())
}
