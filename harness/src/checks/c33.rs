//! C33 - Generated identifiers are unique and valid.

use super::common::*;
use crate::ev::*;
use crate::gram::GType;
use crate::inst::{self, GenCfg};
use crate::prng::hash_str;
use crate::run::guarded;
use crate::wl;
use parol::generators::generate_terminal_names;
use serde_json::json;
use std::collections::BTreeMap;
use std::time::Instant;

fn dups<'a>(names: impl Iterator<Item = &'a String>) -> Vec<String> {
    let mut m: BTreeMap<&String, usize> = BTreeMap::new();
    for n in names {
        *m.entry(n).or_insert(0) += 1;
    }
    m.into_iter().filter(|(_, c)| *c > 1).map(|(n, _)| n.clone()).collect()
}

fn is_ident(s: &str) -> bool {
    syn::parse_str::<syn::Ident>(s).is_ok()
}

/// Returns a list of (kind, description) problems in a generated trait/AST source.
pub fn check_trait_source(src: &str) -> Vec<(String, String)> {
    let mut out = vec![];
    let file = match syn::parse_file(src) {
        Ok(f) => f,
        Err(e) => {
            return vec![("generated-source-does-not-parse".into(), format!("generated trait source is not valid Rust: {e}"))];
        }
    };
    let mut types: Vec<String> = vec![];
    for item in &file.items {
        match item {
            syn::Item::Struct(s) => {
                types.push(s.ident.to_string());
                let fields: Vec<String> = s.fields.iter().filter_map(|f| f.ident.as_ref().map(|i| i.to_string())).collect();
                for d in dups(fields.iter()) {
                    out.push(("duplicate-struct-field".into(), format!("struct {} has two fields named {d}", s.ident)));
                }
            }
            syn::Item::Enum(e) => {
                types.push(e.ident.to_string());
                let vars: Vec<String> = e.variants.iter().map(|v| v.ident.to_string()).collect();
                for d in dups(vars.iter()) {
                    out.push(("duplicate-enum-variant".into(), format!("enum {} has two variants named {d}", e.ident)));
                }
                for v in &e.variants {
                    let fields: Vec<String> = v.fields.iter().filter_map(|f| f.ident.as_ref().map(|i| i.to_string())).collect();
                    for d in dups(fields.iter()) {
                        out.push(("duplicate-struct-field".into(), format!("variant {}::{} has two fields named {d}", e.ident, v.ident)));
                    }
                }
            }
            syn::Item::Type(t) => types.push(t.ident.to_string()),
            syn::Item::Trait(t) => {
                types.push(t.ident.to_string());
                let fns: Vec<String> = t.items.iter().filter_map(|i| if let syn::TraitItem::Fn(f) = i { Some(f.sig.ident.to_string()) } else { None }).collect();
                for d in dups(fns.iter()) {
                    out.push(("duplicate-trait-method".into(), format!("trait {} has two methods named {d}", t.ident)));
                }
            }
            syn::Item::Impl(im) => {
                let fns: Vec<String> = im.items.iter().filter_map(|i| if let syn::ImplItem::Fn(f) = i { Some(f.sig.ident.to_string()) } else { None }).collect();
                for d in dups(fns.iter()) {
                    out.push(("duplicate-impl-method".into(), format!("an impl block has two methods named {d}")));
                }
            }
            _ => {}
        }
    }
    for d in dups(types.iter()) {
        out.push(("duplicate-type-name".into(), format!("two generated types are named {d}")));
    }
    out
}

pub fn run(ctx: &Ctx) -> i32 {
    let t0 = Instant::now();
    let mut profs = vec![];
    for gt in [GType::LL, GType::LALR] {
        let b = |n| wl::Profile::base(n, gt);
        profs.push(wl::Profile { names: wl::Names::Idents, n_nts: (2, 7), p_ebnf: 40, nest: 3, left_rec: gt == GType::LALR, ..b("ident-clash") });
        profs.push(wl::Profile { names: wl::Names::Clash, n_nts: (2, 7), p_ebnf: 50, nest: 3, left_rec: gt == GType::LALR, ..b("helper-name-clash") });
        profs.push(wl::Profile { terms: wl::Terms::NameClash, n_terms: (4, 10), n_nts: (1, 4), left_rec: gt == GType::LALR, ..b("terminal-name-clash") });
        profs.push(wl::Profile { terms: wl::Terms::NameClash, names: wl::Names::Idents, n_terms: (3, 8), n_nts: (2, 6), p_ebnf: 40, p_clip: 15, left_rec: gt == GType::LALR, ..b("both") });
    }
    let profiles = static_profiles(profs);
    let n = ctx.n(4000, 80000);
    let rep = run_sharded(ctx, "c33", n, move |rng, i, rep| {
        let p = &profiles[(i as usize) % profiles.len()];
        let g = wl::gen_grammar(rng, p);
        let par = g.to_par();
        let k = draw_k(rng, &g);
        let c = match prepare_grammar(g, p.name, k, &GenCfg::default()) {
            Prep::Ready(c) => c,
            Prep::Rejected(st, msg) => {
                rep.count(&format!("rejected_{st:?}"));
                if st == crate::inst::Stage::Interpret {
                    rep.inconclusive(&format!("generated source not interpretable: {}", truncate(&msg, 60)));
                }
                return;
            }
            Prep::Panicked(_, _) => {
                rep.inconclusive("generator panicked (C26)");
                return;
            }
        };
        let gc = c.built.gc.clone();
        rep.eval();
        let wit = |d: String| json!({"grammar": par, "detail": d});
        // terminal names
        match guarded(|| generate_terminal_names(&gc)) {
            Err(pm) => rep.violation(json!({"kind": "panic", "location": panic_location(&pm)}), format!("generate_terminal_names panicked: {pm}"), wit(String::new())),
            Ok(names) => {
                for nme in &names {
                    if !is_ident(nme) {
                        rep.violation(json!({"kind": "terminal-name-not-an-identifier"}), format!("generated terminal name {nme:?} is not a valid Rust identifier"), wit(format!("{names:?}")));
                    }
                }
                for d in dups(names.iter()) {
                    rep.violation(json!({"kind": "duplicate-terminal-name"}), format!("two terminals share the generated name {d}"), wit(format!("{names:?}")));
                }
            }
        }
        // non-terminal names
        let nts: Vec<String> = gc.cfg.get_non_terminal_set().into_iter().collect();
        for d in dups(nts.iter()) {
            rep.violation(json!({"kind": "duplicate-non-terminal-name"}), format!("non-terminal {d} occurs twice"), wit(String::new()));
        }
        // generated trait / AST source
        let cfg = GenCfg { minimize_boxed: i % 2 == 0, range: i % 3 == 0, ..Default::default() };
        match guarded(|| inst::trait_source(&gc, &cfg)) {
            Err(pm) => rep.violation(json!({"kind": "panic", "location": panic_location(&pm)}), format!("user trait generation panicked: {}", truncate(&pm, 300)), wit(pm.clone())),
            Ok(Err(e)) => {
                rep.count("trait_generation_error");
                if std::env::var("PV_DEBUG").is_ok() {
                    eprintln!("TRAIT ERR {e:#}\n{par}");
                }
            }
            Ok(Ok(src)) => {
                for (kind, d) in check_trait_source(&src) {
                    if std::env::var("PV_DEBUG").is_ok() && kind.contains("parse") {
                        eprintln!("BADSRC {d}\n{par}\n-----\n{src}\n=====");
                    }
                    rep.violation(json!({"kind": kind}), d.clone(), wit(d));
                }
                rep.nontrivial_h(hash_str(&par));
                rep.count(&format!("trait_source_checked_{}", p.name));
                if i % 97 == 0 {
                    rep.sample(json!({"grammar": par, "terminal_names": generate_terminal_names(&gc), "trait_source_bytes": src.len()}));
                }
            }
        }
    });
    let rule = "case = grammar (LL and LALR) whose non-terminal names collide after case conversion or are Rust keywords / std type names / helper-like names, and/or whose terminals map to the same or to awkward generated names ('+' vs \"\\\\+\" vs /[+]/, 'a|b', digits first, non-ASCII, keywords, names of built-in tokens); generate_terminal_names must yield distinct valid identifiers; the generated trait/AST source (with and without minimize-boxed-types / range) must parse with syn and contain no duplicate type names, enum variants per enum, fields per struct/variant, methods per trait/impl; non-trivial = grammar whose trait source was generated and checked; distinct by grammar text";
    let min = if ctx.quick() { 500 } else { 8000 };
    finish(ctx, rep, rule, (min as f64 * ctx.scale) as u64, json!({}), t0.elapsed().as_secs_f64())
}
