//! R-rustc: generated parsers compiled by the real Rust compiler in a batch workspace
//! (C22 compile oracle, C23 typed-AST observation through the compiled binaries).

use crate::ev::*;
use crate::gram::*;
use crate::prng::{Rng, hash_str};
use crate::run::guarded;
use crate::wl;
use serde_json::{Value, json};
use std::process::Command;
use std::time::Instant;

pub struct Member {
    pub name: String,
    pub g: Grammar,
    pub par: String,
    pub options: String,
    /// (input text, expected non-clipped significant token texts) for C23
    pub inputs: Vec<(String, Vec<String>)>,
}

fn write(p: &str, s: &str) {
    std::fs::write(p, s).unwrap_or_else(|e| panic!("cannot write {p}: {e}"));
}

/// Derive the user struct from the generated trait text.
fn user_struct_source(trait_src: &str) -> Result<String, String> {
    let file = syn::parse_file(trait_src).map_err(|e| format!("generated trait does not parse: {e}"))?;
    for item in &file.items {
        if let syn::Item::Trait(t) = item {
            if t.ident == "PvGrammarTrait" {
                let lt = !t.generics.params.is_empty();
                let (g, ga, gi) = if lt { ("<'t>", "<'t>", "impl<'t>") } else { ("", "", "impl") };
                let mut s = String::new();
                s.push_str("#![allow(unused)]\nuse crate::pv_grammar_trait::*;\nuse parol_runtime::{Result, Token};\n");
                // user types (C22 "user types"): a token type and a non-terminal type; their Debug output keeps
                // the tokens visible in the form the C23 monitor extracts
                s.push_str("#[derive(Clone, Default)]\npub struct UTok(pub String, pub parol_runtime::Span);\nimpl parol_runtime::ToSpan for UTok { fn span(&self) -> parol_runtime::Span { self.1.clone() } }\nimpl parol_runtime::ToSpan for UNt { fn span(&self) -> parol_runtime::Span { parol_runtime::Span::default() } }\nimpl std::fmt::Debug for UTok { fn fmt(&self, f: &mut std::fmt::Formatter<'_>) -> std::fmt::Result { write!(f, \"Token {{ text: {:?} }}\", self.0) } }\nimpl<'t> TryFrom<&Token<'t>> for UTok { type Error = anyhow::Error; fn try_from(t: &Token<'t>) -> std::result::Result<Self, Self::Error> { Ok(UTok(t.text().to_string(), parol_runtime::ToSpan::span(t))) } }\n");
                s.push_str("#[derive(Clone, Default)]\npub struct UNt(pub String);\nimpl std::fmt::Debug for UNt { fn fmt(&self, f: &mut std::fmt::Formatter<'_>) -> std::fmt::Result { write!(f, \"UNt({})\", self.0) } }\n");
                for item in &file.items {
                    let (name, has_lt) = match item {
                        syn::Item::Struct(st) => (st.ident.to_string(), !st.generics.params.is_empty()),
                        syn::Item::Enum(en) => (en.ident.to_string(), !en.generics.params.is_empty()),
                        _ => continue,
                    };
                    if name == "ASTType" || name.ends_with("GrammarAuto") {
                        continue;
                    }
                    if has_lt {
                        s.push_str(&format!("impl<'t> TryFrom<&{name}<'t>> for UNt {{ type Error = anyhow::Error; fn try_from(x: &{name}<'t>) -> std::result::Result<Self, Self::Error> {{ Ok(UNt(format!(\"{{:?}}\", x))) }} }}\n"));
                    } else {
                        s.push_str(&format!("impl TryFrom<&{name}> for UNt {{ type Error = anyhow::Error; fn try_from(x: &{name}) -> std::result::Result<Self, Self::Error> {{ Ok(UNt(format!(\"{{:?}}\", x))) }} }}\n"));
                    }
                }
                s.push_str(&format!("#[derive(Debug, Default)]\npub struct PvGrammar{g} {{ pub calls: Vec<(String, String)>, pub comments: Vec<String>, {} }}\n", if lt { "_p: std::marker::PhantomData<&'t str>" } else { "" }));
                s.push_str(&format!("{gi} PvGrammarTrait{ga} for PvGrammar{ga} {{\n"));
                for it in &t.items {
                    if let syn::TraitItem::Fn(f) = it {
                        let name = f.sig.ident.to_string();
                        if name == "on_comment" {
                            let arg_ty = f.sig.inputs.iter().nth(1).map(|a| if let syn::FnArg::Typed(p) = a { let t = &p.ty; quote::quote!(#t).to_string() } else { String::new() }).unwrap_or_default();
                            s.push_str(&format!("    fn on_comment(&mut self, token: {arg_ty}) {{ self.comments.push(token.text().to_string()); }}\n"));
                            continue;
                        }
                        let arg_ty = f.sig.inputs.iter().nth(1).map(|a| if let syn::FnArg::Typed(p) = a { let t = &p.ty; quote::quote!(#t).to_string() } else { String::new() }).unwrap_or_default();
                        let fname = if name.starts_with("r#") { name.clone() } else { name.clone() };
                        s.push_str(&format!("    fn {fname}(&mut self, arg: {arg_ty}) -> Result<()> {{ self.calls.push((\"{name}\".to_string(), format!(\"{{:?}}\", arg))); Ok(()) }}\n"));
                    }
                }
                s.push_str("}\n");
                return Ok(s);
            }
        }
    }
    Err("generated trait source has no PvGrammarTrait".into())
}

const MAIN_RS: &str = r#"
#![allow(unused)]
extern crate parol_runtime;
mod pv_grammar;
mod pv_grammar_trait;
mod pv_parser;
use std::io::BufRead;
fn esc(s: &str) -> String { let mut o = String::new(); for c in s.chars() { match c { '"' => o.push_str("\\\""), '\\' => o.push_str("\\\\"), '\n' => o.push_str("\\n"), '\r' => o.push_str("\\r"), '\t' => o.push_str("\\t"), c if (c as u32) < 32 => o.push_str(&format!("\\u{:04x}", c as u32)), c => o.push(c) } } o }
fn main() {
    // one input per line, JSON-escaped strings handled by the caller: lines are hex encoded
    let stdin = std::io::stdin();
    for line in stdin.lock().lines() {
        let line = line.unwrap();
        let bytes: Vec<u8> = (0..line.len() / 2).map(|i| u8::from_str_radix(&line[2 * i..2 * i + 2], 16).unwrap()).collect();
        let input = String::from_utf8(bytes).unwrap();
        let mut g = pv_grammar::PvGrammar::default();
        let r = pv_parser::parse(&input, "in.txt", &mut g);
        let calls: Vec<String> = g.calls.iter().map(|(n, _)| format!("\"{}\"", esc(n))).collect();
        let last = g.calls.last().map(|(_, d)| d.clone()).unwrap_or_default();
        let comments: Vec<String> = g.comments.iter().map(|c| format!("\"{}\"", esc(c))).collect();
        println!("{{\"ok\":{},\"calls\":[{}],\"dump\":\"{}\",\"comments\":[{}]}}", r.is_ok(), calls.join(","), esc(&last), comments.join(","));
    }
}
"#;

/// Generate up to `want` accepted grammars into member crates under `dir`. Returns the members.
pub fn make_batch(dir: &str, prefix: &str, rng: &mut Rng, want: usize, rep: &mut Report, with_inputs: bool) -> Vec<Member> {
    let _ = std::fs::remove_dir_all(dir);
    std::fs::create_dir_all(dir).unwrap();
    let mut members: Vec<Member> = vec![];
    let mut profs = vec![];
    for gt in [GType::LL, GType::LALR] {
        let b = |n| wl::Profile::base(n, gt);
        profs.push(wl::Profile { p_ebnf: 45, nest: 3, p_clip: 0, left_rec: gt == GType::LALR, ..b("nested-ebnf") });
        profs.push(wl::Profile { names: wl::Names::Clash, p_ebnf: 45, nest: 3, n_nts: (2, 6), left_rec: gt == GType::LALR, ..b("name-clash") });
        profs.push(wl::Profile { names: wl::Names::Idents, terms: if with_inputs { wl::Terms::Letters } else { wl::Terms::NameClash }, n_terms: (3, 7), n_nts: (2, 5), p_ebnf: 35, left_rec: gt == GType::LALR, ..b("idents") });
        profs.push(wl::Profile { terms: wl::Terms::Mixed, n_terms: (3, 7), p_ebnf: 35, left_rec: gt == GType::LALR, ..b("mixed-terms") });
    }
    let mut attempts = 0;
    while members.len() < want && attempts < want * 12 {
        attempts += 1;
        let i = members.len();
        let p = &profs[attempts % profs.len()];
        let mut g = if attempts % 9 == 0 && p.gtype == GType::LALR {
            wl::gen_lr_template(rng)
        } else if attempts % 5 == 3 {
            wl::gen_nested_rep_template(rng, p.gtype)
        } else {
            wl::gen_grammar(rng, p)
        };
        if with_inputs {
            // C23: make every token occurrence distinguishable (order inside repetitions must be
            // visible): letter terminals become /x[0-9]*/ and are rendered as x<position>
            for t in g.terms.iter_mut() {
                if t.quote == Quote::Raw && t.la.is_none() && t.text.len() == 1 && t.text.chars().all(|c| c.is_ascii_lowercase()) {
                    t.text = format!("{}[0-9]*", t.text);
                    t.quote = Quote::Regex;
                }
            }
        }
        // C23: clipping is a property of the terminal (all its occurrences), never of non-terminals
        let clipped_terms: Vec<bool> = g.terms.iter().map(|_| rng.chance(1, 4)).collect();
        fn apply_clip(alts: &mut Alts, clipped: &[bool], members: &mut usize, rng: &mut Rng, clip_nts: bool) {
            for alt in alts.iter_mut() {
                for f in alt.iter_mut() {
                    match f {
                        Factor::T(t, c) => {
                            c.clip = clipped[*t];
                            c.member = None;
                            if !c.clip && rng.chance(1, 6) {
                                *members += 1;
                                c.member = Some(format!("mem{members}"));
                            }
                        }
                        Factor::N(_, c) => {
                            // a clipped non-terminal occurrence hides its whole subtree (C23 derives the
                            // expected tokens from the derivation, see wl::random_derivation)
                            c.clip = clip_nts && rng.chance(1, 5);
                            c.member = None;
                        }
                        Factor::Grp(a) | Factor::Opt(a) | Factor::Rep(a) => apply_clip(a, clipped, members, rng, clip_nts),
                    }
                }
            }
        }
        let mut nmem = 0;
        for r in g.rules.iter_mut() {
            apply_clip(&mut r.alts, &clipped_terms, &mut nmem, rng, true);
        }
        if rng.chance(1, 2) {
            g.states[0].line_comments.push(("//".into(), Quote::Raw));
        }
        // user types: %t_type, %user_type alias on terminal occurrences, %nt_type, type on a
        // non-terminal occurrence (conversions are provided by the harness user module)
        fn set_utype(alts: &mut Alts, rng: &mut Rng, on_terms: bool, ty: &str, only_nt: Option<&str>) {
            for alt in alts.iter_mut() {
                for f in alt.iter_mut() {
                    match f {
                        Factor::T(_, c) if on_terms && !c.clip && rng.chance(1, 3) => c.utype = Some(ty.to_string()),
                        Factor::N(n, c) if !on_terms && Some(n.as_str()) == only_nt && rng.chance(2, 3) => c.utype = Some(ty.to_string()),
                        Factor::Grp(a) | Factor::Opt(a) | Factor::Rep(a) => set_utype(a, rng, on_terms, ty, only_nt),
                        _ => {}
                    }
                }
            }
        }
        let ut_mode = rng.below(8);
        match ut_mode {
            0 => g.t_type = Some("crate::pv_grammar::UTok".into()),
            1 => {
                g.user_types.push(("UT".into(), "crate::pv_grammar::UTok".into()));
                for r in g.rules.iter_mut() {
                    set_utype(&mut r.alts, rng, true, "UT", None);
                }
            }
            2 if g.rules.len() > 1 => {
                let others: Vec<String> = g.nt_names().into_iter().filter(|n| *n != g.start).collect();
                let n = rng.pick(&others[..]).clone();
                g.nt_types.push((n, "crate::pv_grammar::UNt".into()));
            }
            3 if g.rules.len() > 1 => {
                let others: Vec<String> = g.nt_names().into_iter().filter(|n| *n != g.start).collect();
                let target = rng.pick(&others[..]).clone();
                for r in g.rules.iter_mut() {
                    set_utype(&mut r.alts, rng, false, "crate::pv_grammar::UNt", Some(&target));
                }
            }
            _ => {}
        }
        let par = g.to_par();
        if with_inputs && g.gtype == GType::LALR {
            // C23 wants sentences the parser accepts: grammars whose table needed conflict
            // resolution reject some sentences by design (C04), leave them to C01/C04
            let conflicts = guarded(|| crate::inst::build(&par, 1, &crate::inst::GenCfg::default()).map(|b| b.resolved_conflicts).unwrap_or(usize::MAX)).unwrap_or(usize::MAX);
            if conflicts != 0 {
                rep.count("lalr_grammar_with_resolved_conflicts_or_rejected_skipped");
                continue;
            }
        }
        let name = format!("{prefix}g{i}");
        let cdir = format!("{dir}/{name}");
        std::fs::create_dir_all(format!("{cdir}/src")).unwrap();
        let gfile = format!("{cdir}/grammar.par");
        write(&gfile, &par);
        let opt_min = rng.chance(1, 3);
        let opt_range = rng.chance(1, 4);
        let opt_trim = rng.chance(1, 4);
        let opt_norec = rng.chance(1, 5);
        let opt_depth = rng.chance(1, 5);
        let k = if g.gtype == GType::LL { rng.range(1, 4) } else { 1 };
        let src_dir = format!("{cdir}/src");
        let r = guarded(|| -> Result<(), String> {
            let mut b = parol::build::Builder::with_explicit_output_dir(&src_dir);
            b.grammar_file(&gfile)
                .parser_output_file("pv_parser.rs")
                .actions_output_file("pv_grammar_trait.rs")
                .user_type_name("PvGrammar")
                .user_trait_module_name("pv_grammar")
                .set_cargo_integration(false);
            if opt_min {
                b.minimize_boxed_types();
            }
            if opt_range {
                b.range();
            }
            if opt_trim {
                b.trim_parse_tree();
            }
            if opt_norec {
                b.disable_recovery();
            }
            if opt_depth {
                b.max_parsing_depth(200);
            }
            b.max_lookahead(k).map_err(|e| e.to_string())?;
            b.generate_parser().map_err(|e| format!("{e}"))
        });
        match r {
            Ok(Ok(())) => {}
            Ok(Err(_)) => {
                rep.count("grammar_rejected_by_parol");
                let _ = std::fs::remove_dir_all(&cdir);
                continue;
            }
            Err(_) => {
                rep.count("generator_panicked_(C26)");
                let _ = std::fs::remove_dir_all(&cdir);
                continue;
            }
        }
        let trait_src = std::fs::read_to_string(format!("{src_dir}/pv_grammar_trait.rs")).unwrap_or_default();
        let options = format!("user_types={} minimize_boxed={opt_min} range={opt_range} trim={opt_trim} no_recovery={opt_norec} max_depth={opt_depth} k={k}", ["t_type", "user_type_on_terminals", "nt_type", "type_on_non_terminal_occurrence"].get(ut_mode).copied().unwrap_or("none"));
        match user_struct_source(&trait_src) {
            Ok(us) => write(&format!("{src_dir}/pv_grammar.rs"), &us),
            Err(e) => {
                // a trait the harness cannot even read: report as a compile-level problem of this member
                write(&format!("{src_dir}/pv_grammar.rs"), &format!("compile_error!(\"{}\");", e.replace('"', "'")));
            }
        }
        write(&format!("{src_dir}/main.rs"), MAIN_RS);
        write(
            &format!("{cdir}/Cargo.toml"),
            &format!("[package]\nname = \"{name}\"\nversion = \"0.1.0\"\nedition = \"2024\"\n\n[dependencies]\nparol_runtime = {{ path = \"/repo/crates/parol_runtime\" }}\nscnr2 = \"0.5.2\"\nanyhow = \"1\"\n"),
        );
        // inputs for C23
        let mut inputs = vec![];
        if with_inputs {
            for s in 0..30 {
                let budget = *rng.pick(&[1usize, 3, 6, 12, 25]);
                let Some(wv) = wl::random_derivation(&g, rng, budget) else { continue };
                if wv.len() > 60 {
                    continue;
                }
                let w: Vec<usize> = wv.iter().map(|x| x.0).collect();
                // fixed lexemes so that expectations are exact
                let mut text = String::new();
                let mut expect = vec![];
                for (wi, t) in w.iter().enumerate() {
                    if wi > 0 {
                        text.push_str(if s % 3 == 0 { " " } else if s % 3 == 1 { "\n" } else { "  \t" });
                    }
                    let lx = if g.terms[*t].text.ends_with("[0-9]*") { format!("{}{}", g.terms[*t].samples[0], wi) } else { g.terms[*t].samples[wi % g.terms[*t].samples.len()].clone() };
                    if wv[wi].1 {
                        expect.push(lx.clone());
                    }
                    text.push_str(&lx);
                }
                if !g.states[0].line_comments.is_empty() && s % 4 == 1 {
                    text.push_str(" // tail comment\n");
                }
                inputs.push((text, expect));
            }
        }
        members.push(Member { name, g, par, options, inputs });
    }
    // workspace
    let list: Vec<String> = members.iter().map(|m| format!("\"{}\"", m.name)).collect();
    write(&format!("{dir}/Cargo.toml"), &format!("[workspace]\nresolver = \"2\"\nmembers = [{}]\n\n[profile.dev]\ndebug = 0\nincremental = false\n", list.join(", ")));
    let _ = std::fs::copy("/repo/Cargo.lock", format!("{dir}/Cargo.lock"));
    members
}

/// cargo build --keep-going; returns per member Ok(()) or Err(first error lines)
pub fn build_batch(dir: &str, members: &[Member]) -> Result<Vec<Result<(), String>>, String> {
    let out = Command::new("cargo")
        .args(["build", "--offline", "--keep-going", "--workspace", "--message-format", "short"])
        .current_dir(dir)
        .env("CARGO_TARGET_DIR", "/verif/target/batch")
        .env("CARGO_NET_OFFLINE", "true")
        .env_remove("RUSTFLAGS")
        .env("RUSTFLAGS", "--cfg parol_verif -Awarnings")
        .output()
        .map_err(|e| format!("cannot run cargo: {e}"))?;
    let stderr = String::from_utf8_lossy(&out.stderr).to_string();
    let _ = std::fs::write(format!("{dir}/build.log"), &stderr);
    if stderr.contains("failed to load manifest") || stderr.contains("failed to select a version") || stderr.contains("no matching package") {
        return Err(format!("cargo could not set up the batch workspace: {}", stderr.lines().take(6).collect::<Vec<_>>().join(" | ")));
    }
    let mut res = vec![];
    for m in members {
        let failed = stderr.contains(&format!("could not compile `{}`", m.name));
        if failed {
            // collect this member's error lines (paths contain /<name>/src/)
            let errs: Vec<&str> = stderr.lines().filter(|l| l.contains(&format!("{}/src/", m.name)) && l.contains("error")).take(5).collect();
            res.push(Err(errs.join(" | ")));
        } else if std::path::Path::new(&format!("/verif/target/batch/debug/{}", m.name)).exists() {
            res.push(Ok(()));
        } else {
            res.push(Err(format!("no binary produced for {}", m.name)));
        }
    }
    Ok(res)
}

fn hex(s: &str) -> String {
    s.bytes().map(|b| format!("{b:02x}")).collect()
}

/// Tokens in a Rust Debug dump: Token { text: "..", token_type: N, ..
fn tokens_in_dump(d: &str) -> Vec<String> {
    let mut out = vec![];
    let mut rest = d;
    while let Some(i) = rest.find("Token { text: \"") {
        let s = &rest[i + "Token { text: \"".len()..];
        let mut text = String::new();
        let mut chars = s.char_indices();
        let mut end = s.len();
        while let Some((ci, c)) = chars.next() {
            if c == '\\' {
                if let Some((_, n)) = chars.next() {
                    match n {
                        'n' => text.push('\n'),
                        't' => text.push('\t'),
                        'r' => text.push('\r'),
                        'u' => {
                            // \u{..}
                            let mut hexs = String::new();
                            for (_, h) in chars.by_ref() {
                                if h == '}' {
                                    break;
                                }
                                if h != '{' {
                                    hexs.push(h);
                                }
                            }
                            if let Some(ch) = u32::from_str_radix(&hexs, 16).ok().and_then(char::from_u32) {
                                text.push(ch);
                            }
                        }
                        other => text.push(other),
                    }
                }
            } else if c == '"' {
                end = ci;
                break;
            } else {
                text.push(c);
            }
        }
        out.push(text);
        rest = &s[end.min(s.len())..];
    }
    out
}

pub fn run(ctx: &Ctx, c23: bool) -> i32 {
    let t0 = Instant::now();
    let quick = ctx.quick();
    let (nbatches, per) = if quick { (1usize, if c23 { 16usize } else { 24 }) } else { (12, 25) };
    let nbatches = ((nbatches as f64) * ctx.scale).ceil().max(1.0) as usize;
    let mut rep = Report::new();
    rep.max_samples = 4;
    let mut rng = Rng::derive(ctx.seed, if c23 { "c23" } else { "c22" }, 0, 0);
    for b in 0..nbatches {
        if Instant::now() > ctx.deadline {
            rep.count_n("cases_not_run_deadline", (nbatches - b) as u64);
            break;
        }
        rep.count("cases_run");
        let dir = format!("/verif/work/batch-{}-{}-{b}", ctx.prop, ctx.build);
        let prefix = format!("{}{}b{b}", ctx.prop.to_lowercase(), &ctx.build[..1]);
        let members = make_batch(&dir, &prefix, &mut rng, per, &mut rep, c23);
        if members.is_empty() {
            continue;
        }
        let results = match build_batch(&dir, &members) {
            Ok(r) => r,
            Err(e) => {
                rep.inconclusive(&format!("batch workspace broken: {}", truncate(&e, 200)));
                continue;
            }
        };
        for (m, r) in members.iter().zip(results.iter()) {
            if !c23 {
                rep.eval();
            }
            match r {
                Err(e) => {
                    if !c23 {
                        let first = e.split(" | ").next().unwrap_or("").to_string();
                        let code = first.split("error").nth(1).unwrap_or("").split(':').next().unwrap_or("").trim().to_string();
                        // classifier for the known finding: a non-terminal whose type name shadows a
                        // type or constructor the generated code uses unqualified
                        const SHADOWING: [&str; 13] = ["Vec", "Option", "Box", "String", "Result", "Token", "Ok", "Err", "Some", "None", "Span", "Range", "ToSpan"];
                        let shadows = m.g.nt_names().iter().any(|n| SHADOWING.contains(&n.as_str()));
                        let _ = code;
                        // second classifier: two non-terminals whose names map to one type name
                        // (A_B and a_b -> AB); parol renames the second type but not its uses
                        let camel = |n: &str| -> String {
                            n.trim_start_matches("r#").split('_').filter(|p| !p.is_empty()).map(|p| { let mut c = p.chars(); c.next().map(|f| f.to_uppercase().collect::<String>() + c.as_str()).unwrap_or_default() }).collect()
                        };
                        let names = m.g.nt_names();
                        let same_type_name = names.iter().enumerate().any(|(i, a)| names.iter().skip(i + 1).any(|b| camel(a) == camel(b)));
                        rep.violation(json!({"kind": "generated-code-does-not-compile", "non_terminal_shadows_a_type_used_by_generated_code": shadows, "two_non_terminals_map_to_one_type_name": same_type_name}), format!("rustc rejects the code generated for an accepted grammar: {}", truncate(e, 400)), json!({"grammar": m.par, "options": m.options, "errors": e, "crate": format!("{dir}/{}", m.name)}));
                    } else {
                        rep.inconclusive("member does not compile (C22)");
                    }
                }
                Ok(()) => {
                    if !c23 {
                        rep.nontrivial_h(hash_str(&m.par));
                        if rep.samples.len() < 3 {
                            rep.sample(json!({"grammar": m.par, "options": m.options, "compiled": true}));
                        }
                        continue;
                    }
                    // C23: run the binary on the inputs
                    let stdin: String = m.inputs.iter().map(|(t, _)| hex(t) + "\n").collect();
                    let out = Command::new(format!("/verif/target/batch/debug/{}", m.name)).stdin(std::process::Stdio::piped()).stdout(std::process::Stdio::piped()).stderr(std::process::Stdio::null()).spawn().and_then(|mut ch| {
                        use std::io::Write;
                        ch.stdin.take().unwrap().write_all(stdin.as_bytes())?;
                        ch.wait_with_output()
                    });
                    let Ok(out) = out else {
                        rep.inconclusive("cannot run batch binary");
                        continue;
                    };
                    let lines: Vec<Value> = String::from_utf8_lossy(&out.stdout).lines().filter_map(|l| serde_json::from_str(l).ok()).collect();
                    if lines.len() != m.inputs.len() {
                        rep.violation(json!({"kind": "compiled-parser-crashed"}), format!("the compiled parser answered {} of {} inputs (exit {:?})", lines.len(), m.inputs.len(), out.status.code()), json!({"grammar": m.par, "options": m.options}));
                        continue;
                    }
                    for ((text, expect), l) in m.inputs.iter().zip(lines.iter()) {
                        rep.eval();
                        let wit = |d: String| json!({"grammar": m.par, "options": m.options, "input": text, "expected_tokens": expect, "observed": l, "detail": d});
                        if l["ok"].as_bool() != Some(true) {
                            rep.inconclusive("compiled parser rejected a sentence (C01)");
                            if std::env::var("PV_TRACE").is_ok() { eprintln!("REJECT {}", wit(String::new())); }
                            continue;
                        }
                        let calls: Vec<&str> = l["calls"].as_array().map(|a| a.iter().filter_map(|x| x.as_str()).collect()).unwrap_or_default();
                        let Some(last) = calls.last() else {
                            rep.violation(json!({"kind": "start-action-not-called"}), "no user action was called on a successful parse", wit(String::new()));
                            continue;
                        };
                        let n_start = calls.iter().filter(|c| *c == last).count();
                        // the start symbol's action is the last one; it must be called exactly once
                        // unless the start symbol is used recursively (then inner calls are legitimate)
                        let start_recursive = m.g.to_bnf().prods.iter().any(|(_, r)| r.contains(&Sym::N(m.g.to_bnf().start)));
                        if n_start != 1 && !start_recursive {
                            rep.violation(json!({"kind": "start-action-call-count"}), format!("the start symbol's action {last} was called {n_start} times"), wit(String::new()));
                        }
                        let got = tokens_in_dump(l["dump"].as_str().unwrap_or(""));
                        if got != *expect {
                            rep.violation(
                                json!({"kind": "ast-tokens-differ-from-input", "lr": m.g.gtype == GType::LALR}),
                                format!("tokens in the AST passed to the start action {got:?} differ from the input's non-clipped tokens {expect:?}"),
                                wit(String::new()),
                            );
                        }
                        if text.contains("// tail comment") && l["comments"].as_array().map(|a| a.len()) != Some(1) {
                            rep.violation(json!({"kind": "comment-not-delivered-once"}), format!("the comment of the input was delivered {:?} times", l["comments"].as_array().map(|a| a.len())), wit(String::new()));
                        }
                        if expect.len() >= 3 {
                            rep.nontrivial_h(hash_str(&m.par) ^ hash_str(text));
                            if rep.samples.len() < 3 {
                                rep.sample(json!({"grammar": m.par, "input": text, "ast_tokens": got, "calls": calls.len()}));
                            }
                        }
                    }
                }
            }
        }
        // keep failing crates for inspection, remove the rest; member artefacts always go
        if rep.violations.is_empty() {
            let _ = std::fs::remove_dir_all(&dir);
        }
        for sub in ["debug", "debug/deps", "debug/.fingerprint"] {
            if let Ok(rd) = std::fs::read_dir(format!("/verif/target/batch/{sub}")) {
                for e in rd.flatten() {
                    let n = e.file_name().to_string_lossy().to_string();
                    if n.starts_with(&prefix) {
                        let _ = if e.path().is_dir() { std::fs::remove_dir_all(e.path()) } else { std::fs::remove_file(e.path()) };
                    }
                }
            }
        }
    }
    let (rule, min) = if c23 {
        ("case = (accepted grammar compiled by rustc in a batch workspace exactly as parol::build::Builder wrote it - parser, trait/AST/adapter - plus a harness user struct that overrides every trait method and records its name and the Debug rendering of its argument; sentence = random derivation of the grammar as written that records for every token whether it is visible - hidden when its terminal is clipped or when it was derived below a clipped non-terminal occurrence; letter terminals are /x[0-9]*/ rendered as x<position> so that every occurrence is distinguishable and order inside (nested) repetitions is observable); the binary parses the inputs; the action called last is the start symbol's and must be called once (unless the start symbol is recursive); the Token texts found in its argument's Debug output, in order, must equal the visible tokens of the derivation (member names on some occurrences; optional parts and repetition order are visible in that sequence); a trailing comment must be delivered once; non-trivial = input with >= 3 unclipped tokens; distinct by (grammar, input)", if quick { 60 } else { 1500 })
    } else {
        ("case = accepted grammar (nested EBNF, helper-name clashes, keyword-like non-terminal names, awkward terminal names, mixed terminals, clipped terminals, member names, user types (%t_type, %user_type alias on terminal occurrences, %nt_type, type on a non-terminal occurrence; conversions and ToSpan provided by the harness user module), LL k = 1..4 and LALR(1)) generated by parol::build::Builder with random options (minimize-boxed-types, range, trim, recovery off, depth limit) into its own crate of a batch workspace together with a harness user struct derived from the generated trait; rustc (cargo build --offline --keep-going, warnings ignored) must compile every member; evaluations = member crates compiled; distinct by grammar text", if quick { 12 } else { 150 })
    };
    finish(ctx, rep, rule, (min as f64 * ctx.scale) as u64, json!({"batches": nbatches, "members_per_batch": per}), t0.elapsed().as_secs_f64())
}
