//! C25 - Rendering a grammar as PAR text round-trips.

use super::common::*;
use super::parfp::*;
use crate::ev::*;
use crate::gram::GType;
use crate::inst;
use crate::prng::hash_str;
use crate::run::guarded;
use crate::wl;
use crate::wlscan::*;
use parol::{obtain_grammar_config_from_string, render_par_string};
use serde_json::json;
use std::time::Instant;

pub fn run(ctx: &Ctx) -> i32 {
    let t0 = Instant::now();
    let mut profs = wl::ll_profiles();
    profs.extend(wl::lr_profiles());
    for p in profs.iter_mut() {
        p.p_clip = 15;
    }
    let profiles = static_profiles(profs);
    let n = ctx.n(4000, 80000);
    let rep = run_sharded(ctx, "c25", n, move |rng, i, rep| {
        let mut g = if i % 3 == 0 {
            let sp = ScanProfile { max_modes: 3, p_lookahead: 30, p_skip: 40, p_allow_unmatched: 40, p_auto_off: 30, comments: true, lalr: i % 6 == 3 };
            gen_scan_case(rng, &sp).g
        } else {
            let p = &profiles[(i as usize) % profiles.len()];
            let mut g = wl::gen_grammar(rng, p);
            wl::decorate_scanner(&mut g, rng);
            if p.gtype == GType::LL && rng.chance(1, 3) {
                g.states[0].allow_unmatched = true;
            }
            g
        };
        wl::annotate(&mut g, rng);
        let par = g.to_par();
        let (gc0, gc) = match guarded(|| inst::front(&par)) {
            Ok(Ok(x)) => x,
            Ok(Err(e)) => {
                rep.count(&format!("rejected_{:?}", e.stage));
                if e.stage == inst::Stage::Parse && std::env::var("PV_DEBUG").is_ok() {
                    eprintln!("REJECT {}\n{par}", truncate(&e.msg, 300));
                }
                return;
            }
            Err(_) => {
                rep.inconclusive("front end panicked (C26)");
                return;
            }
        };
        for (which, cfg) in [("untransformed", &gc0), ("transformed", &gc)] {
            rep.eval();
            let wit = |d: String, text: &str| json!({"grammar": par, "which": which, "rendered": text, "detail": d});
            let text = match guarded(|| render_par_string(cfg, i % 2 == 0)) {
                Ok(Ok(t)) => t,
                Ok(Err(e)) => {
                    rep.violation(json!({"kind": "render-error", "which": which}), format!("render_par_string failed on an accepted grammar: {e}"), wit(e.to_string(), ""));
                    continue;
                }
                Err(pm) => {
                    rep.violation(json!({"kind": "panic", "location": panic_location(&pm)}), format!("render_par_string panicked: {pm}"), wit(pm.clone(), ""));
                    continue;
                }
            };
            let back = match guarded(|| obtain_grammar_config_from_string(&text, false)) {
                Ok(Ok(b)) => b,
                Ok(Err(e)) => {
                    // classifier for a known finding: a group around a single terminal (B: ( 'c' );) is
                    // rendered without the group, which turns B into a second token alias of that text
                    let msg = format!("{e:#}");
                    let reason = if msg.contains("Multiple token aliases that expand to the same text") { "multiple-token-aliases" } else { "other" };
                    rep.violation(json!({"kind": "rendered-text-does-not-parse", "which": which, "reason": reason}), format!("the rendered PAR text of the {which} grammar is rejected by parol: {}", truncate(&format!("{e:#}"), 300)), wit(format!("{e:#}"), &text));
                    continue;
                }
                Err(pm) => {
                    rep.violation(json!({"kind": "panic", "location": panic_location(&pm)}), format!("re-reading rendered text panicked: {pm}"), wit(pm.clone(), &text));
                    continue;
                }
            };
            let (a, b) = (fingerprint(cfg, true), fingerprint(&back, true));
            if let Some(d) = first_difference(&a, &b) {
                let key = d.split(':').next().unwrap_or("").split(' ').take(3).collect::<Vec<_>>().join(" ");
                let key = key.trim_start_matches("scanner ").to_string();
                let field = key.split_whitespace().last().unwrap_or("").to_string();
                // classifier for the known finding: the only loss is an explicit type on an
                // occurrence of a non-terminal that also has a %nt_type
                let mut a2 = a.clone();
                let nt_typed: Vec<String> = cfg.nt_type_defs.iter().map(|(n, _)| n.clone()).collect();
                let mut b2 = b.clone();
                for v in [&mut a2, &mut b2] {
                    if let Some(ps) = v["productions"].as_array_mut() {
                        for p in ps.iter_mut() {
                            if let Some(rhs) = p["rhs"].as_array_mut() {
                                for sym in rhs.iter_mut() {
                                    if sym.get("n").and_then(|n| n.as_str()).is_some_and(|n| nt_typed.iter().any(|x| x == n)) {
                                        sym["type"] = serde_json::Value::Null;
                                    }
                                }
                            }
                        }
                    }
                }
                let only_nt_type_override = a2 == b2;
                rep.violation(
                    json!({"kind": "round-trip-difference", "field": if only_nt_type_override { "type-override-on-non-terminal-with-nt_type".to_string() } else if d.starts_with("production") { "productions".to_string() } else if d.starts_with("scanner") { field } else { key }}),
                    format!("rendering the {which} grammar and reading it back changes {d}"),
                    wit(d.clone(), &text),
                );
            }
        }
        rep.nontrivial_h(hash_str(&par));
        if g.states.len() > 1 || g.t_type.is_some() {
            rep.sample(json!({"grammar": par, "states": g.states.len()}));
        }
    });
    let rule = "case = accepted grammar with random annotation combinations (clipping, member names, user types and aliases, %nt_type, %t_type, title/comment, comments, %auto_*_off, %allow_unmatched in INITIAL and named states, skip lists, scanner transitions, lookahead terminals, terminals in several states; LL and LALR); the untransformed and the transformed configuration are rendered with render_par_string (with and without index comments), read back with obtain_grammar_config_from_string and compared by a semantic fingerprint (start, declarations, productions with symbol identity / clipping / member / type / states / lookahead, per-state scanner configuration with skip lists and transitions resolved to terminal identities); distinct by grammar text";
    let min = if ctx.quick() { 800 } else { 12000 };
    finish(ctx, rep, rule, (min as f64 * ctx.scale) as u64, json!({}), t0.elapsed().as_secs_f64())
}
