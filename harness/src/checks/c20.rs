//! C20 - Parser options do not change parse outcomes.

use super::common::*;
use super::tree;
use crate::ev::*;
use crate::inst::GenCfg;
use crate::prng::hash_str;
use crate::run::{self, Child, ErrClass, Node, Opts, Outcome};
use crate::wl;
use serde_json::json;
use std::time::Instant;

fn sig(o: &Outcome) -> (bool, Option<String>, Vec<(usize, Vec<String>)>) {
    (
        o.ok,
        o.err.as_ref().map(|(c, _)| format!("{c:?}")),
        o.actions
            .iter()
            .map(|a| (a.prod, a.children.iter().map(|ch| match ch { Child::T(t) => format!("{}:{}@{}", t.ty, t.text, t.start), Child::N(n) => n.clone() }).collect()))
            .collect(),
    )
}

/// LL: maximum number of simultaneously open non-push productions = max over tree nodes of the
/// number of non-push production applications on the path from the root.
fn ll_depth(c: &Case, pr: &tree::Prods, root: &Node) -> Option<usize> {
    let push: Vec<bool> = c.built.tables.ll_productions.iter().map(|p| p.2).collect();
    // walk with explicit stack: (node, depth so far)
    let Node::Inner(_, top) = root else { return None };
    let mut best = 0usize;
    let mut stack: Vec<(&Node, usize)> = top.iter().map(|n| (n, 0usize)).collect();
    while let Some((n, d)) = stack.pop() {
        if let Node::Inner(name, ch) = n {
            // identify the production of this node
            let lhs = pr.nts.iter().position(|x| x == name)?;
            let sig: Vec<&Node> = ch.iter().filter(|x| !matches!(x, Node::Leaf(t) if t.effective_skip)).collect();
            let prod = pr.prods.iter().position(|(l, rhs)| {
                *l == lhs
                    && rhs.len() == sig.len()
                    && rhs.iter().zip(sig.iter()).all(|(s, x)| match (s, x) {
                        (tree::PSym::T(t), Node::Leaf(tok)) => tok.ty == *t,
                        (tree::PSym::N(i), Node::Inner(nm, _)) => pr.nts[*i] == *nm,
                        _ => false,
                    })
            })?;
            let d2 = if push[prod] { d } else { d + 1 };
            best = best.max(d2);
            for x in ch {
                stack.push((x, d2));
            }
        }
    }
    Some(best)
}

/// LR: replay shifts and reductions from the action log; the limit is compared with the state
/// stack length (start state included) at the top of every parser loop iteration.
fn lr_depth(c: &Case, o: &Outcome, ntokens: usize) -> usize {
    let lens: Vec<usize> = c.built.tables.lr_productions.iter().map(|p| p.1).collect();
    let mut stack = 1usize; // start state
    let mut best = 1usize;
    let mut shifted = 0usize;
    for a in &o.actions {
        // tokens that must be on the stack: all terminal children; reductions happen before the
        // next shift, so shift only what this reduction needs
        let need = a.children.iter().filter_map(|ch| if let Child::T(t) = ch { Some(t.number as usize + 1) } else { None }).max();
        let _ = need;
        let nterm_children = a.children.iter().filter(|ch| matches!(ch, Child::T(_))).count();
        let _ = nterm_children;
        // count significant tokens whose start offset is <= the last terminal child's start
        if let Some(last_start) = a.children.iter().filter_map(|ch| if let Child::T(t) = ch { Some(t.start) } else { None }).max() {
            while shifted < ntokens && o.sig_starts[shifted] <= last_start {
                best = best.max(stack);
                stack += 1;
                shifted += 1;
            }
        }
        best = best.max(stack);
        stack = stack - lens[a.prod] + 1;
    }
    best.max(stack)
}

pub fn run(ctx: &Ctx) -> i32 {
    let t0 = Instant::now();
    let mut profs = wl::ll_profiles();
    profs.extend(wl::lr_profiles());
    let profiles = static_profiles(profs);
    let quick = ctx.quick();
    let n = ctx.n(2500, 50000);
    let rep = run_sharded(ctx, "c20", n, move |rng, i, rep| {
        let p = &profiles[(i as usize) % profiles.len()];
        let g = if i % 4 == 0 && p.gtype == crate::gram::GType::LALR { wl::gen_lr_template(rng) } else { wl::gen_grammar(rng, p) };
        let k = draw_k(rng, &g);
        let c = match prepare_grammar(g, p.name, k, &GenCfg::default()) {
            Prep::Ready(c) => c,
            Prep::Rejected(st, _) => {
                rep.count(&format!("grammar_rejected_{st:?}"));
                return;
            }
            Prep::Panicked(_, _) => {
                rep.inconclusive("generator panicked (C26)");
                return;
            }
        };
        if c.built.resolved_conflicts > 0 {
            return;
        }
        let Some(pr) = tree::prods_of_case(&c) else { return };
        let ninputs = if quick { 20 } else { 80 };
        for n in 0..ninputs {
            let b = *rng.pick(&[2usize, 6, 12, 30, 60]);
            let Some(mut w) = wl::random_sentence(&c.bnf, rng, b) else { continue };
            if w.len() > 120 {
                continue;
            }
            let valid_intended = n % 3 != 2;
            if !valid_intended {
                w = wl::mutate(&w, c.g.terms.len() + 1, rng);
            }
            let text = wl::render_tokens(&c.g, &w, rng, n % 2 == 1);
            let budget = budget_for(&c, w.len());
            let base = run::parse(&c.built, &text, &Opts { budget, ..Default::default() });
            if base.panic.is_some() || base.clock_exceeded {
                rep.inconclusive("baseline panicked or ran away (C19)");
                continue;
            }
            let bsig = sig(&base);
            let wit = |d: &str| json!({"case": case_json(&c), "input": text, "detail": d, "baseline_ok": base.ok, "baseline_err": base.err.as_ref().map(|e| e.1.clone())});
            // (1) trim / recovery off
            for (trim, recovery) in [(true, true), (false, false), (true, false)] {
                if c.built.is_lr && !recovery {
                    continue;
                }
                let o = run::parse(&c.built, &text, &Opts { trim, recovery, budget, ..Default::default() });
                rep.eval();
                if o.panic.is_some() {
                    rep.violation(json!({"kind": "panic-with-options", "location": panic_location(o.panic.as_ref().unwrap())}), format!("parser panicked with trim={trim} recovery={recovery}: {:?}", o.panic), wit(""));
                    continue;
                }
                let os = sig(&o);
                if os.0 != bsig.0 {
                    rep.violation(json!({"kind": "option-changes-acceptance", "trim": trim, "recovery": recovery}), format!("trim={trim} recovery={recovery}: ok={} but baseline ok={}", os.0, bsig.0), wit(""));
                } else if os.0 && os.2 != bsig.2 {
                    rep.violation(json!({"kind": "option-changes-actions", "trim": trim, "recovery": recovery}), format!("trim={trim} recovery={recovery}: the sequence of semantic actions differs from the baseline"), wit(""));
                } else if !os.0 && recovery && os.2 != bsig.2 {
                    // failing parses: actions performed before the failure must agree when only trimming differs
                    rep.violation(json!({"kind": "trim-changes-actions-of-failing-parse"}), "trim changes the semantic actions performed before the error", wit(""));
                }
            }
            // (2) depth limit: find the threshold black-box
            let run_lim = |l: usize| run::parse(&c.built, &text, &Opts { max_depth: Some(l), budget, ..Default::default() });
            let is_depth_err = |o: &Outcome| matches!(o.err, Some((ErrClass::MaxDepth(_), _)));
            let hi0 = 4 * (w.len() + 10);
            let top = run_lim(hi0);
            rep.eval();
            if is_depth_err(&top) {
                rep.inconclusive("depth limit of 4*(tokens+10) still exceeded");
                continue;
            }
            if sig(&top) != bsig {
                rep.violation(json!({"kind": "unreached-depth-limit-changes-outcome"}), format!("a depth limit of {hi0} (not reached) changes the outcome"), wit(""));
                continue;
            }
            let (mut lo, mut hi) = (0usize, hi0); // lo: depth error (or -1), hi: baseline
            let o0 = run_lim(0);
            if !is_depth_err(&o0) {
                // threshold 0: nothing to bisect (e.g. empty automaton) - must equal baseline
                if sig(&o0) != bsig {
                    rep.violation(json!({"kind": "depth-limit-changes-outcome"}), "limit 0 neither yields the depth error nor the baseline outcome", wit(""));
                }
                continue;
            }
            while hi - lo > 1 {
                let mid = (lo + hi) / 2;
                let o = run_lim(mid);
                rep.eval();
                if o.panic.is_some() {
                    rep.violation(json!({"kind": "panic-with-depth-limit", "location": panic_location(o.panic.as_ref().unwrap())}), format!("parser panicked with depth limit {mid}: {:?}", o.panic), wit(""));
                    break;
                }
                if is_depth_err(&o) {
                    lo = mid;
                } else if sig(&o) == bsig {
                    hi = mid;
                } else {
                    rep.violation(json!({"kind": "depth-limit-changes-outcome"}), format!("depth limit {mid}: neither the depth error nor the baseline outcome"), wit(&format!("{:?}", o.err)));
                    break;
                }
            }
            if hi - lo != 1 {
                continue;
            }
            // monotonicity probes
            for probe in [lo.saturating_sub(1), lo / 2, hi + 1, hi + 7] {
                let o = run_lim(probe);
                rep.eval();
                let expect_err = probe <= lo;
                if is_depth_err(&o) != expect_err || (!expect_err && sig(&o) != bsig) {
                    rep.violation(json!({"kind": "depth-threshold-not-monotone"}), format!("threshold found at {hi} but limit {probe} gives {:?}", o.err.as_ref().map(|e| &e.0)), wit(""));
                }
            }
            // independent depth of valid inputs
            if base.ok {
                let want = if c.built.is_lr {
                    let mut o2 = run::parse(&c.built, &text, &Opts { budget, ..Default::default() });
                    let starts: Vec<u32> = match run::scan_all(&c.built, &text, 1, 0) {
                        Ok(t) => t.iter().filter(|(t, _)| !t.effective_skip).map(|(t, _)| t.start).collect(),
                        Err(_) => continue,
                    };
                    o2.sig_starts = starts;
                    let nt = o2.sig_starts.len();
                    Some(lr_depth(&c, &o2, nt))
                } else {
                    base.tree.as_ref().and_then(|r| ll_depth(&c, &pr, r))
                };
                match want {
                    Some(wd) => {
                        // LL: error iff depth > limit, threshold = depth. LR: error iff stack len > limit.
                        // LR: the replay from the action log cannot tell whether an empty reduction happens
                        // before or after a pending shift, its resolution is one stack slot
                        let differs = if c.built.is_lr { wd.abs_diff(hi) > 1 } else { wd != hi };
                        if differs {
                            rep.violation(
                                json!({"kind": "depth-accounting", "lr": c.built.is_lr}),
                                format!("smallest sufficient depth limit is {hi}, the documented depth of this parse is {wd} ({})", if c.built.is_lr { "maximum LR state stack length" } else { "maximum number of open non-push productions" }),
                                wit(""),
                            );
                        }
                    }
                    None => rep.inconclusive("independent depth not computable"),
                }
                if hi >= 3 {
                    rep.nontrivial_h(hash_str(&c.par) ^ hash_str(&text));
                    if n == 0 {
                        rep.sample(json!({"grammar": c.par, "input": text, "depth_threshold": hi, "lr": c.built.is_lr}));
                    }
                }
            }
        }
    });
    let rule = "case = (accepted LL or conflict-free LALR grammar, valid or mutated input); baseline = no trim, recovery on, no limit; trim, recovery off and both must give the same Ok/Err and the same action log; the depth limit threshold is bisected black-box (below: MaxParsingDepthExceeded, at/above: baseline outcome), probed for monotonicity and, for valid inputs, compared with an independent depth (LL: maximum number of open non-push productions on a root path of the returned tree; LR: maximum state-stack length from replaying the recorded shifts/reductions); non-trivial = valid input with threshold >= 3; distinct by (grammar, input)";
    let min = if quick { 1500 } else { 20000 };
    finish(ctx, rep, rule, (min as f64 * ctx.scale) as u64, json!({}), t0.elapsed().as_secs_f64())
}
