//! C03 - LALR(1) parsers accept exactly the language and build a derivation.

use super::common::*;
use super::tree;
use crate::ev::*;
use crate::oracle::Earley;
use crate::prng::hash_str;
use crate::run::{self, Opts};
use crate::wl;
use serde_json::json;
use std::time::Instant;

pub fn run(ctx: &Ctx) -> i32 {
    let t0 = Instant::now();
    let mut profs = wl::lr_profiles();
    // LL profiles re-typed as LALR
    for mut p in wl::ll_profiles().into_iter().take(3) {
        p.gtype = crate::gram::GType::LALR;
        profs.push(p);
    }
    let profiles = static_profiles(profs);
    let quick = ctx.quick();
    let ngrammars = ctx.n(3000, 60000);
    let rep = run_sharded(ctx, "c03", ngrammars, move |rng, i, rep| {
        let p = &profiles[(i as usize) % profiles.len()];
        let (par, _k, prep) = if i % 3 == 0 {
            let g = wl::gen_lr_template(rng);
            let par = g.to_par();
            (par, 1, prepare_grammar(g, "lalr-template", 1, &crate::inst::GenCfg::default()))
        } else {
            prepare(rng, p)
        };
        let p = if i % 3 == 0 { &profiles[0] } else { p };
        let c = match prep {
            Prep::Ready(c) => c,
            Prep::Rejected(st, _) => {
                rep.count(&format!("grammar_rejected_{st:?}"));
                return;
            }
            Prep::Panicked(m, g) => {
                rep.eval();
                // only a crash on a grammar that *is* LALR(1) is C03's subject; crashes on
                // conflicting grammars belong to C04/C26
                match crate::oracle::lalr1_conflicts(&g.to_bnf(), 3000) {
                    crate::oracle::LalrVerdict::NoConflict => {}
                    crate::oracle::LalrVerdict::Conflict(_) => {
                        rep.count("panic_on_conflicting_grammar_(C04/C26)");
                        return;
                    }
                    crate::oracle::LalrVerdict::TooBig => {
                        rep.inconclusive("panic, LR(1) oracle too big");
                        return;
                    }
                }
                rep.violation(
                    json!({"kind": "panic", "location": panic_location(&m)}),
                    format!("LALR(1) pipeline panicked: {}", truncate(&m, 200)),
                    json!({"grammar": par, "panic": m, "profile": p.name}),
                );
                return;
            }
        };
        if c.built.resolved_conflicts > 0 {
            rep.count("grammar_with_resolved_conflicts_(C04)");
            return;
        }
        rep.count(&format!("grammar_accepted_{}", p.name));
        let Some(pr) = tree::prods_of_case(&c) else {
            rep.inconclusive("export model unreadable");
            return;
        };
        let start_on_rhs = c.bnf.prods.iter().any(|(_, r)| r.contains(&crate::gram::Sym::N(c.bnf.start)));
        let left_rec = c.bnf.left_recursive().iter().any(|x| *x);
        if start_on_rhs {
            rep.count("accepted_with_start_on_rhs");
        }
        if left_rec {
            rep.count("accepted_left_recursive");
        }
        let ear = Earley::new(&c.bnf);
        let nterm = c.g.terms.len();
        let mut inputs: Vec<Vec<usize>> = wl::all_strings(nterm + 1, if quick { 4 } else { 6 }, if quick { 150 } else { 1500 });
        let mut sentences = vec![];
        for _ in 0..(if quick { 15 } else { 80 }) {
            let budget = *rng.pick(&[3usize, 6, 10, 20, 40]);
            if let Some(s) = wl::random_sentence(&c.bnf, rng, budget) {
                if s.len() <= 80 {
                    sentences.push(s);
                }
            }
        }
        for _ in 0..(if quick { 30 } else { 200 }) {
            if sentences.is_empty() {
                break;
            }
            let s = rng.pick(&sentences).clone();
            inputs.push(wl::mutate(&s, nterm + 1, rng));
        }
        inputs.extend(sentences);
        let (mut members, mut non_members) = (0u64, 0u64);
        for (n, w) in inputs.iter().enumerate() {
            let text = wl::render_tokens(&c.g, w, rng, n % 4 == 3);
            let Some((toks, scanned)) = oracle_tokens(&c, &text) else {
                rep.inconclusive("scan failed");
                continue;
            };
            let member = ear.accepts(&toks);
            let o = run::parse(&c.built, &text, &Opts { budget: 5_000_000, ..Default::default() });
            rep.eval();
            if let Some(pm) = &o.panic {
                // a panicking LR parser on this input: C19's subject, but a debug assertion about
                // the number of action arguments is exactly C03's "reported once with its children"
                if pm.contains("Number of arguments does not match") {
                    rep.violation(json!({"kind": "lr-argument-count-assert"}), "LR parser: action argument count differs from the production length", json!({"case": case_json(&c), "input": text, "panic": pm}));
                } else {
                    rep.inconclusive("parser panicked (C19)");
                }
                continue;
            }
            if o.clock_exceeded {
                rep.inconclusive("parser ran away (C19)");
                continue;
            }
            if member {
                members += 1;
            } else {
                non_members += 1;
            }
            let wit = |what: &str| {
                json!({"case": case_json(&c), "input": text, "oracle_tokens": toks, "oracle_member": member,
                       "parser_ok": o.ok, "detail": what, "error": o.err.as_ref().map(|e| e.1.clone()),
                       "actions": o.actions.iter().map(|a| a.prod).collect::<Vec<_>>()})
            };
            if o.ok != member {
                let kind = if o.ok { "accepts-non-sentence" } else { "rejects-sentence" };
                rep.violation(json!({"kind": kind, "start_on_rhs": start_on_rhs}), format!("LALR(1) parser {kind}"), wit(""));
                continue;
            }
            if !o.ok {
                continue;
            }
            let Some(root) = &o.tree else {
                rep.violation(json!({"kind": "no-tree"}), "successful LR parse returned no tree", wit(""));
                continue;
            };
            match tree::validate(&pr, root) {
                Err(e) => rep.violation(json!({"kind": "not-a-derivation-tree"}), format!("LR tree is not a derivation tree: {e}"), wit(&e)),
                Ok(info) => {
                    if let Err(e) = tree::compare_yield(&info, &scanned) {
                        rep.violation(json!({"kind": "yield-mismatch"}), format!("LR tree yield: {e}"), wit(&e));
                    }
                    if let Err(e) = tree::compare_actions(&info, &o.actions) {
                        rep.violation(json!({"kind": "action-log-mismatch"}), format!("LR reductions: {e}"), wit(&e));
                    }
                }
            }
        }
        rep.count_n("member_inputs", members);
        rep.count_n("non_member_inputs", non_members);
        if members > 0 && non_members > 0 {
            rep.nontrivial_h(hash_str(&c.par));
            rep.sample(json!({"grammar": c.par, "inputs": inputs.len(), "members": members, "non_members": non_members,
                "start_on_rhs": start_on_rhs, "left_recursive": left_rec}));
        }
    });
    let rule = "case = one generated grammar typed %grammar_type 'lalr(1)' (left-recursive, recursive-start, nullable, name-clash, quoting and re-typed LL profiles) for which parol reports no resolved conflict; a panic anywhere in the pipeline is a violation; inputs = all token strings up to length 4 (6 thorough, capped) + sentences + mutants; Ok/Err compared with Earley; on success the tree must be a derivation tree rooted in the start symbol whose post-order equals the reduction log (each once, same children) and whose yield is the input; non-trivial = grammar with >=1 member and >=1 non-member; distinct by grammar text";
    let min = if quick { 150 } else { 2000 };
    finish(ctx, rep, rule, (min as f64 * ctx.scale) as u64, json!({}), t0.elapsed().as_secs_f64())
}
