pub mod common;
pub mod c01;

use crate::ev::Ctx;

pub fn dispatch(ctx: &Ctx) -> i32 {
    match ctx.prop.as_str() {
        "C01" => c01::run(ctx),
        other => {
            eprintln!("unknown property {other}");
            2
        }
    }
}
