//! Helpers shared by the behavioural checks.

use crate::wl::{self, Profile};
use crate::gram::*;
use crate::inst::{self, Built, GenCfg, Stage};
use crate::prng::Rng;
use crate::run::{self, Tok};
use serde_json::{Value, json};

pub struct Case {
    pub g: Grammar,
    pub par: String,
    pub bnf: Bnf,
    pub built: Built,
    /// scanner terminal index -> id of the harness' TermDef (None: not a grammar terminal)
    pub term_of_index: Vec<Option<usize>>,
    pub profile: &'static str,
    pub k_limit: usize,
}

pub enum Prep {
    Rejected(Stage, String),
    Panicked(String, Box<Grammar>),
    Ready(Box<Case>),
}

fn kind_is_raw(v: &Value) -> bool {
    v.as_str() == Some("Raw")
}

/// Map scanner terminal indices to harness terminals through the export model's scanner table
/// (what the scanner claims token type i means).
pub fn term_map(g: &Grammar, model: &Value, n_names: usize) -> Vec<Option<usize>> {
    let mut m = vec![None; n_names];
    if let Some(ts) = model["scanner"]["terminals"].as_array() {
        for t in ts {
            let idx = t["index"].as_u64().unwrap_or(0) as usize;
            let pat = t["pattern"].as_str().unwrap_or("");
            let raw = kind_is_raw(&t["kind"]);
            let la = if t["lookahead"].is_null() {
                None
            } else {
                Some((
                    t["lookahead"]["is_positive"].as_bool().unwrap_or(true),
                    t["lookahead"]["pattern"].as_str().unwrap_or("").to_string(),
                    kind_is_raw(&t["lookahead"]["kind"]),
                ))
            };
            let id = g.terms.iter().position(|td| {
                let (tx, r, l) = td.identity();
                tx == pat && r == raw && l == la
            });
            if idx < m.len() {
                m[idx] = id;
            }
        }
    }
    m
}

pub fn prepare_grammar(g: Grammar, profile: &'static str, k_limit: usize, cfg: &GenCfg) -> Prep {
    let par = g.to_par();
    let r = run::guarded(|| inst::build(&par, k_limit, cfg));
    match r {
        Err(p) => Prep::Panicked(p, Box::new(g)),
        Ok(Err(e)) => Prep::Rejected(e.stage, e.msg),
        Ok(Ok(built)) => {
            let bnf = g.to_bnf();
            let term_of_index = term_map(&g, &built.model, built.tables.terminal_names.len());
            Prep::Ready(Box::new(Case {
                g,
                par,
                bnf,
                built,
                term_of_index,
                profile,
                k_limit,
            }))
        }
    }
}

pub fn prepare(rng: &mut Rng, p: &'static Profile) -> (String, usize, Prep) {
    let mut g = wl::gen_grammar(rng, p);
    if rng.chance(1, 4) {
        wl::decorate_occurrences(&mut g, rng);
    }
    if rng.chance(1, 5) {
        wl::add_skip_noise(&mut g);
    }
    let mut k_limit = draw_k(rng, &g);
    if p.gtype == GType::LL && p.terms == wl::Terms::Letters && rng.chance(1, 8) {
        // explicit partition of the strings of length k (crossed lookahead tries)
        let (pg, k) = wl::gen_partition_template(rng);
        g = pg;
        k_limit = rng.range(k, 5);
    }
    let par = g.to_par();
    (par, k_limit, prepare_grammar(g, p.name, k_limit, &GenCfg::default()))
}

/// Draw the lookahead limit: most mass on 1..5; 6..10 only for grammars whose k-tuple sets
/// stay small (few terminals / rules) - larger ones would only produce analysis blow-ups.
pub fn draw_k(rng: &mut Rng, g: &Grammar) -> usize {
    let tiny = g.terms.len() <= 2 && g.rules.len() <= 3;
    let small = g.terms.len() <= 3 && g.rules.len() <= 4;
    match rng.below(10) {
        0 => 1,
        1 => 2,
        2 | 3 => 3,
        4 | 5 => 4,
        6 | 7 => 5,
        8 => {
            if small {
                rng.range(6, 7)
            } else {
                rng.range(2, 5)
            }
        }
        _ => {
            if tiny {
                rng.range(8, 10)
            } else if small {
                6
            } else {
                rng.range(1, 5)
            }
        }
    }
}

/// The significant token-type sequence the real scanner delivers for `input`, mapped to harness
/// terminal ids (foreign tokens => ids >= nterm). None if scanning failed.
pub fn oracle_tokens(c: &Case, input: &str) -> Option<(Vec<usize>, Vec<(Tok, usize)>)> {
    let toks = run::scan_all(&c.built, input, 1, 0).ok()?;
    let nterm = c.g.terms.len();
    let mut w = vec![];
    for (t, _) in &toks {
        if t.effective_skip {
            continue;
        }
        let id = c
            .term_of_index
            .get(t.ty as usize)
            .cloned()
            .flatten()
            .unwrap_or(nterm + (t.ty as usize % 3));
        w.push(id);
    }
    Some((w, toks))
}

pub fn case_json(c: &Case) -> Value {
    json!({"profile": c.profile, "grammar": c.par, "k_limit": c.k_limit,
           "max_k": c.built.tables.max_k, "lr": c.built.is_lr})
}

/// Leak-free static profile tables
pub fn static_profiles(v: Vec<Profile>) -> &'static [Profile] {
    Box::leak(v.into_boxed_slice())
}

/// "file:line" of a recorded panic ("<file>:<line>: <msg>"), path shortened to be stable.
pub fn panic_location(p: &str) -> String {
    let loc = p.split(": ").next().unwrap_or("");
    if let Some(i) = loc.find("/crates/") {
        return loc[i + 1..].to_string();
    }
    if let Some(i) = loc.find("/registry/src/") {
        let rest = &loc[i + "/registry/src/".len()..];
        if let Some(j) = rest.find('/') {
            return rest[j + 1..].to_string();
        }
    }
    loc.to_string()
}

/// Logical-clock budget for one parse: generous multiple of what a legitimate parse needs
/// (tree events for LL, semantic action calls for LR).
pub fn budget_for(c: &Case, ntokens: usize) -> u64 {
    let np = c.built.tables.ll_productions.len().max(c.built.tables.lr_productions.len()) as u64;
    60 * (ntokens as u64 + 10) * (np + 1)
}
