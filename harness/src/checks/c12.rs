//! C12 - LR augmentation preserves the language and isolates the start symbol.

use super::c09::lang_len_for;
use super::common::*;
use super::conv::*;
use crate::ev::*;
use crate::gram::{GType, Sym};
use crate::oracle::bounded_langs;
use crate::prng::hash_str;
use crate::run::guarded;
use crate::wl;
use parol::generators::grammar_trans::check_and_transform_grammar_with_ignored;
use parol::obtain_grammar_config_from_string;
use parol::parser::parol_grammar::GrammarType;
use serde_json::json;
use std::time::Instant;

pub fn run(ctx: &Ctx) -> i32 {
    let t0 = Instant::now();
    let mut profs = wl::lr_profiles();
    profs.push(wl::Profile { names: wl::Names::Clash, recursive_start: true, left_rec: true, n_nts: (2, 5), ..wl::Profile::base("start-named-like-S0", GType::LALR) });
    let profiles = static_profiles(profs);
    let quick = ctx.quick();
    let n = ctx.n(4000, 80000);
    let rep = run_sharded(ctx, "c12", n, move |rng, i, rep| {
        let p = &profiles[(i as usize) % profiles.len()];
        let mut g = wl::gen_grammar(rng, p);
        if rng.chance(1, 2) {
            wl::decorate_occurrences(&mut g, rng);
        }
        if p.name == "start-named-like-S0" && g.rules.iter().all(|r| r.name != "S0") && g.rules.len() > 1 {
            // force a user non-terminal that is literally named like the augmented start symbol
            let old = g.rules[1].name.clone();
            g = g.rename_nts(&|n: &str| if n == old { "S0".to_string() } else { n.to_string() });
        }
        let par = g.to_par();
        let gc = match guarded(|| obtain_grammar_config_from_string(&par, false)) {
            Ok(Ok(gc)) => gc,
            Ok(Err(_)) => {
                rep.count("rejected_by_front_end");
                return;
            }
            Err(_) => {
                rep.inconclusive("front end panicked (C26)");
                return;
            }
        };
        let ignored = gc.unreachable_non_terminals_to_ignore.iter().cloned().collect();
        let r = guarded(|| check_and_transform_grammar_with_ignored(&gc.cfg, GrammarType::LALR1, &ignored));
        let cfg = match r {
            Ok(Ok(c)) => c,
            Ok(Err(_)) => {
                rep.count("rejected_by_checks");
                return;
            }
            Err(pm) => {
                rep.violation(json!({"kind": "panic", "location": panic_location(&pm)}), format!("check_and_transform_grammar(LALR1) panicked: {pm}"), json!({"grammar": par}));
                return;
            }
        };
        rep.eval();
        let wit = |d: String| json!({"grammar": par, "augmented": cfg.pr.iter().map(|p| p.to_string()).collect::<Vec<_>>(), "start": cfg.st, "detail": d});
        let (b1, k1) = cfg_to_bnf_keys(&cfg);
        let nstart = b1.prods_of(b1.start).count();
        if nstart != 1 {
            rep.violation(json!({"kind": "start-production-count"}), format!("start symbol {} of the grammar handed to LALR(1) construction has {nstart} productions", cfg.st), wit(String::new()));
        }
        if b1.prods.iter().any(|(_, r)| r.contains(&Sym::N(b1.start))) {
            rep.violation(json!({"kind": "start-on-rhs"}), format!("start symbol {} of the grammar handed to LALR(1) construction occurs on a right-hand side", cfg.st), wit(String::new()));
        }
        let b1 = renumber_to_grammar(&b1, &k1, &g);
        let mine = g.to_bnf();
        let l = lang_len_for(g.terms.len(), quick);
        match (bounded_langs(&mine, l, 30000), bounded_langs(&b1, l, 30000)) {
            (Some(la), Some(lb)) => {
                if la[mine.start] != lb[b1.start] {
                    let only_a: Vec<_> = la[mine.start].difference(&lb[b1.start]).take(3).collect();
                    let only_b: Vec<_> = lb[b1.start].difference(&la[mine.start]).take(3).collect();
                    rep.violation(json!({"kind": "language-changed"}), format!("bounded language (len <= {l}) changed by LR transformation: only in source {only_a:?}, only in result {only_b:?}"), wit(String::new()));
                }
                // every source non-terminal keeps its language (a clash of the new start symbol's
                // name with a user non-terminal would merge two non-terminals)
                for (ui, name) in mine.nts.iter().take(mine.user_nts).enumerate() {
                    if let Some(pi) = b1.nts.iter().position(|n| n == name) {
                        if la[ui] != lb[pi] {
                            rep.violation(json!({"kind": "nonterminal-language-changed"}), format!("bounded language of source non-terminal {name} changed by LR transformation"), wit(name.clone()));
                            break;
                        }
                    }
                }
            }
            _ => rep.inconclusive("bounded language exceeds cap"),
        }
        let start_used = mine.prods.iter().any(|(_, r)| r.contains(&Sym::N(mine.start)));
        let multi = mine.prods_of(mine.start).count() > 1;
        rep.nontrivial_h(hash_str(&par));
        if start_used && !multi {
            rep.count("single_production_start_used_recursively");
        }
        if multi {
            rep.count("multi_production_start");
        }
        if start_used || multi {
            rep.sample(json!({"grammar": par, "augmented_start": cfg.st, "start_used_on_rhs": start_used, "start_alternatives": mine.prods_of(mine.start).count()}));
        }
    });
    let rule = "case = generated LALR-typed grammar (recursive single-production start symbols, multi-production starts, a user non-terminal literally named S0) passed through obtain_grammar_config_from_string and check_and_transform_grammar_with_ignored(.., LALR1); the result's start symbol must have exactly one production and occur on no right-hand side; the bounded language (len <= 4-8) from the start symbol and of every source non-terminal must equal the one computed from the harness AST; distinct by grammar text (every accepted grammar counts; counters report how many had a recursively used single-production start)";
    let min = if quick { 400 } else { 5000 };
    finish(ctx, rep, rule, (min as f64 * ctx.scale) as u64, json!({}), t0.elapsed().as_secs_f64())
}
