//! C31 - Recovery edit scripts are minimal and correct (via hook H1).

use crate::ev::*;
use crate::oracle::levenshtein;
use crate::prng::hash_bytes;
use crate::run::guarded;
use parol_runtime::verif_hooks::{EditOp, levenshtein_distance};
use serde_json::json;
use std::time::Instant;

/// Apply the script to `act`; None if the script is malformed (runs out of either sequence).
fn apply(act: &[u16], exp: &[u16], ops: &[EditOp]) -> Option<Vec<u16>> {
    let (mut i, mut j) = (0usize, 0usize);
    let mut out = vec![];
    for op in ops {
        match op {
            EditOp::Keep => {
                out.push(*act.get(i)?);
                if act.get(i)? != exp.get(j)? {
                    return None;
                }
                i += 1;
                j += 1;
            }
            EditOp::Replace => {
                act.get(i)?;
                out.push(*exp.get(j)?);
                i += 1;
                j += 1;
            }
            EditOp::Insert => {
                out.push(*exp.get(j)?);
                j += 1;
            }
            EditOp::Delete => {
                act.get(i)?;
                i += 1;
            }
        }
    }
    if i != act.len() {
        return None;
    }
    Some(out)
}

fn check(act: &[u16], exp: &[u16], rep: &mut Report) {
    rep.eval();
    let r = guarded(|| levenshtein_distance(act, exp));
    let (d, ops) = match r {
        Ok(x) => x,
        Err(pm) => {
            rep.violation(json!({"kind": "panic"}), format!("levenshtein_distance panicked: {pm}"), json!({"act": act, "exp": exp}));
            return;
        }
    };
    let want = levenshtein(act, exp);
    let nonkeep = ops.iter().filter(|o| **o != EditOp::Keep).count();
    let wit = || json!({"act": act, "exp": exp, "distance": d, "ops": format!("{ops:?}"), "reference_distance": want});
    if d != want {
        rep.violation(json!({"kind": "distance-not-minimal"}), format!("reported distance {d}, minimal edit distance {want}"), wit());
    }
    if nonkeep != d {
        rep.violation(json!({"kind": "script-length-differs-from-distance"}), format!("script has {nonkeep} non-keep operations, reported distance {d}"), wit());
    }
    match apply(act, exp, &ops) {
        Some(res) if res == exp => {}
        other => rep.violation(json!({"kind": "script-does-not-yield-expected"}), format!("applying the script yields {other:?} instead of {exp:?}"), wit()),
    }
    if d >= 2 && act.len() >= 2 && exp.len() >= 2 {
        let mut key = vec![];
        for x in act {
            key.extend(x.to_le_bytes());
        }
        key.push(255);
        for x in exp {
            key.extend(x.to_le_bytes());
        }
        rep.nontrivial_h(hash_bytes(&key));
        if rep.samples.len() < 3 {
            rep.sample(json!({"act": act, "exp": exp, "distance": d, "ops": format!("{ops:?}")}));
        }
    }
}

fn all_seqs(alpha: u16, maxlen: usize) -> Vec<Vec<u16>> {
    let mut out: Vec<Vec<u16>> = vec![vec![]];
    let mut frontier: Vec<Vec<u16>> = vec![vec![]];
    for _ in 0..maxlen {
        let mut next = vec![];
        for w in &frontier {
            for a in 0..alpha {
                let mut w2 = w.clone();
                w2.push(a + 5);
                next.push(w2);
            }
        }
        out.extend(next.iter().cloned());
        frontier = next;
    }
    out
}

pub fn run(ctx: &Ctx) -> i32 {
    let t0 = Instant::now();
    let quick = ctx.quick();
    // exhaustive small scope: all pairs of strings of length <= 4 over 3 symbols (121 x 121)
    let seqs = std::sync::Arc::new(all_seqs(3, 4));
    let nseq = seqs.len() as u64;
    let s2 = seqs.clone();
    let mut rep = run_sharded(ctx, "c31-exhaustive", nseq, move |_rng, i, rep| {
        let a = &s2[i as usize];
        for b in s2.iter() {
            check(a, b, rep);
        }
    });
    let exhaustive_pairs = rep.evaluations;
    let n = ctx.n(40000, 2_000_000);
    let rep2 = run_sharded(ctx, "c31-random", n, move |rng, _i, rep| {
        let alpha = *rng.pick(&[2usize, 3, 5, 9]);
        let la = rng.range(0, 12);
        let act: Vec<u16> = (0..la).map(|_| rng.below(alpha) as u16).collect();
        let exp: Vec<u16> = if rng.chance(1, 2) {
            // a mutant of act (small distances, ties between replace and insert+delete)
            let mut e = act.clone();
            for _ in 0..rng.range(0, 4) {
                match rng.below(3) {
                    0 if !e.is_empty() => {
                        let p = rng.below(e.len());
                        e.remove(p);
                    }
                    1 => {
                        let p = rng.below(e.len() + 1);
                        e.insert(p, rng.below(alpha) as u16);
                    }
                    _ if !e.is_empty() => {
                        let p = rng.below(e.len());
                        e[p] = rng.below(alpha) as u16;
                    }
                    _ => {}
                }
            }
            e
        } else {
            let lb = rng.range(0, 12);
            (0..lb).map(|_| rng.below(alpha) as u16).collect()
        };
        check(&act, &exp, rep);
    });
    rep.merge(rep2);
    let rule = "cases = (a) exhaustively all 14641 pairs of token sequences of length <= 4 over 3 symbols (that sub-space is enumerated completely), (b) random pairs up to length 12 over 2-9 symbols, half of them mutants of each other; through the cfg(parol_verif) hook the crate-private Recovery::levenshtein_distance is called; the script applied to the scanned sequence must yield the expected one, its number of non-keep operations must equal the reported distance, and the distance must equal a textbook DP distance; non-trivial = pair with distance >= 2 and both lengths >= 2; distinct by pair";
    let min = if quick { 5000 } else { 50000 };
    finish(ctx, rep, rule, (min as f64 * ctx.scale) as u64, json!({"exhaustive_subspace": "all pairs of sequences of length <= 4 over 3 symbols", "exhaustive_pairs": exhaustive_pairs}), t0.elapsed().as_secs_f64())
}
