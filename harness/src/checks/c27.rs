//! C27 - The language server's formatter preserves meaning and comments and is idempotent.

use super::lspcommon::*;
use super::parfp::*;
use crate::ev::*;
use crate::lsp::{LspErr, apply_edits};
use crate::partext::*;
use crate::prng::hash_str;
use crate::run::guarded;
use parol::obtain_grammar_config_from_string;
use serde_json::{Value, json};
use std::time::Instant;

fn fp_of(text: &str) -> Option<Value> {
    match guarded(|| obtain_grammar_config_from_string(text, false)) {
        Ok(Ok(gc)) => Some(fingerprint(&gc, true)),
        _ => None,
    }
}

pub fn run(ctx: &Ctx) -> i32 {
    let t0 = Instant::now();
    let quick = ctx.quick();
    let n = ctx.n(400, 8000);
    let rep = run_sharded(ctx, "c27", n, move |rng, i, rep| {
        let g = gen_lsp_grammar(rng, i);
        let base = g.to_par();
        let dens = *rng.pick(&[10usize, 25, 50]);
        // placement classes: none / ordinary places / anywhere between two tokens
        let placement = match i % 4 { 0 => "none", 1 | 2 => "ordinary", _ => "anywhere" };
        let text = match placement { "none" => base.clone(), "ordinary" => sprinkle_comments_ordinary(&base, rng, dens), _ => sprinkle_comments(&base, rng, dens) };
        let Some(fp0) = fp_of(&text) else {
            rep.count("text_not_accepted_by_parol");
            return;
        };
        let comments0 = comments_of(&text);
        let uri = format!("file:///c27_{i}.par");
        let nopts = if quick { 3 } else { 8 };
        for o in 0..nopts {
            let settings = json!({
                "formatting.empty_line_after_prod": rng.chance(1, 2),
                "formatting.prod_semicolon_on_nl": rng.chance(1, 2),
                "formatting.max_line_length": *rng.pick(&[20, 40, 100]),
            });
            let fopts = json!({"tabSize": *rng.pick(&[2, 4, 8]), "insertSpaces": rng.chance(3, 4)});
            let r = with_session(3, |l| -> Result<(String, String), String> {
                l.notify("workspace/didChangeConfiguration", json!({"settings": settings}));
                l.open(&uri, 1, &text);
                let fmt = |l: &mut crate::lsp::Lsp, t: &str| -> Result<String, String> {
                    match l.request("textDocument/formatting", json!({"textDocument": {"uri": uri}, "options": fopts}), 20000) {
                        Ok(Value::Null) => Err("formatter returned nothing".into()),
                        Ok(v) if v.get("error").is_some() => Err(format!("error response {v}")),
                        Ok(v) => apply_edits(t, v.as_array().map(|a| a.as_slice()).unwrap_or(&[])),
                        Err(LspErr::Timeout) => Err("TIMEOUT".into()),
                        Err(LspErr::Exited(info)) => Err(format!("CRASH {info}")),
                    }
                };
                let f1 = fmt(l, &text)?;
                l.change(&uri, 2, &f1);
                let f2 = fmt(l, &f1)?;
                l.close(&uri);
                let _ = l.drain(1, 50);
                Ok((f1, f2))
            });
            rep.eval();
            let wit = |d: String, f: &str| json!({"text": text, "settings": settings, "options": fopts, "formatted": f, "detail": d});
            let (f1, f2) = match r {
                Err(e) => {
                    rep.inconclusive(&format!("no server session: {}", truncate(&e, 60)));
                    return;
                }
                Ok(Err(e)) if e == "TIMEOUT" => {
                    rep.inconclusive("formatting request timed out");
                    continue;
                }
                Ok(Err(e)) if e.starts_with("CRASH") => {
                    rep.violation(json!({"kind": "server-crash-while-formatting", "comment_placement": placement}), format!("language server died while formatting: {e}"), wit(e.clone(), ""));
                    continue;
                }
                Ok(Err(e)) => {
                    rep.violation(json!({"kind": "formatting-failed", "comment_placement": placement}), format!("formatting a valid grammar failed: {e}"), wit(e.clone(), ""));
                    continue;
                }
                Ok(Ok(x)) => x,
            };
            match fp_of(&f1) {
                None => {
                    rep.violation(json!({"kind": "formatted-text-rejected", "comment_placement": placement}), "the formatted text is rejected by parol", wit(String::new(), &f1));
                    continue;
                }
                Some(fp1) => {
                    if let Some(d) = first_difference(&fp0, &fp1) {
                        rep.violation(json!({"kind": "formatting-changes-grammar", "comment_placement": placement}), format!("formatting changes the grammar: {}", truncate(&d, 300)), wit(d.clone(), &f1));
                    }
                }
            }
            let comments1 = comments_of(&f1);
            if comments1 != comments0 {
                let pos = comments0.iter().zip(comments1.iter()).position(|(a, b)| a != b).unwrap_or(comments0.len().min(comments1.len()));
                rep.violation(
                    json!({"kind": "formatting-changes-comments", "comment_placement": placement}),
                    format!("comments differ after formatting ({} before, {} after); first difference at #{pos}: {:?} vs {:?}", comments0.len(), comments1.len(), comments0.get(pos), comments1.get(pos)),
                    wit(String::new(), &f1),
                );
            }
            if f2 != f1 {
                rep.violation(json!({"kind": "formatting-not-idempotent", "comment_placement": placement}), "formatting the formatted text changes it again", json!({"text": text, "settings": settings, "options": fopts, "first": f1, "second": f2}));
            }
            if !comments0.is_empty() {
                rep.nontrivial_h(hash_str(&text) ^ hash_str(&settings.to_string()));
                if o == 0 && i % 16 == 1 {
                    rep.sample(json!({"text": text, "settings": settings, "comments": comments0.len(), "formatted_bytes": f1.len()}));
                }
            }
        }
    });
    let rule = "case = (valid generated PAR text - scanner states, skip lists, annotations, LL and LALR - with line, block and multi-line comments inserted at random token boundaries, formatting settings empty_line_after_prod x prod_semicolon_on_nl x max_line_length in {20,40,100} via workspace/didChangeConfiguration, tabSize/insertSpaces) through the real parol-ls over stdio (textDocument/formatting); the edits are applied by the harness; F must be accepted by parol, have the same semantic fingerprint as T, contain the same comments in the same order (harness mini-lexer) and format(F) = F; non-trivial = text with at least one comment; distinct by (text, settings)";
    let min = if quick { 300 } else { 5000 };
    let code = finish(ctx, rep, rule, (min as f64 * ctx.scale) as u64, json!({}), t0.elapsed().as_secs_f64());
    code
}
