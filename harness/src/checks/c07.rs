//! C07 - Lookahead automata encode exactly the lookahead sets.

use super::common::*;
use super::conv::*;
use crate::ev::*;
use crate::oracle::{END, Tup, TupSet};
use crate::prng::hash_str;
use crate::run::guarded;
use crate::wl;
use parol::LookaheadDFA;
use parol::analysis::{FirstCache, FollowCache, calculate_k_tuples};
use serde_json::json;
use std::collections::BTreeMap;
use std::time::Instant;

/// strict walk over compiled transitions (from, term, to, prod); returns production of end state
pub fn walk(prod0: i32, trs: &[(usize, u16, usize, i32)], w: &[u16]) -> Option<i32> {
    let mut state = 0usize;
    let mut prod = prod0;
    for t in w {
        let term = if *t == END { 0 } else { *t };
        let tr = trs.iter().find(|(f, x, _, _)| *f == state && *x == term)?;
        state = tr.2;
        prod = tr.3;
    }
    Some(prod)
}

fn walk_trie(d: &LookaheadDFA, w: &[u16]) -> Option<i32> {
    let mut state = 0usize;
    for t in w {
        let term = if *t == END { 0 } else { *t };
        state = *d.transitions.get(&state)?.get(&term)?;
    }
    Some(d.states[state].prod_num)
}

pub fn strings_upto(alpha: &[u16], k: usize, cap: usize) -> Option<Vec<Tup>> {
    let mut out: Vec<Tup> = vec![vec![]];
    let mut frontier: Vec<Tup> = vec![vec![]];
    for _ in 0..k {
        let mut next = vec![];
        for w in &frontier {
            if w.last() == Some(&END) {
                continue;
            }
            for a in alpha {
                let mut w2 = w.clone();
                w2.push(*a);
                next.push(w2);
            }
        }
        if out.len() + next.len() > cap {
            return None;
        }
        out.extend(next.iter().cloned());
        frontier = next;
    }
    Some(out)
}

pub fn run(ctx: &Ctx) -> i32 {
    let t0 = Instant::now();
    let profiles = static_profiles(wl::ll_profiles());
    let quick = ctx.quick();
    let n = ctx.n(4000, 80000);
    let rep = run_sharded(ctx, "c07", n, move |rng, i, rep| {
        let p = &profiles[(i as usize) % profiles.len()];
        let (_par, _k, prep) = prepare(rng, p);
        let c = match prep {
            Prep::Ready(c) => c,
            Prep::Rejected(st, _) => {
                rep.count(&format!("grammar_rejected_{st:?}"));
                return;
            }
            Prep::Panicked(_, _) => {
                rep.inconclusive("generator panicked (C26)");
                return;
            }
        };
        let gc = &c.built.gc;
        let fc = FirstCache::new();
        let flc = FollowCache::new();
        let Ok(Ok(tuples)) = guarded(|| calculate_k_tuples(gc, c.k_limit, &fc, &flc)) else {
            rep.inconclusive("calculate_k_tuples failed on an accepted grammar");
            return;
        };
        // per non-terminal name: production -> tuple set
        let mut per_nt: BTreeMap<String, Vec<(usize, TupSet, &parol::KTuples)>> = BTreeMap::new();
        for (pi, kt) in &tuples {
            per_nt.entry(gc.cfg.pr[*pi].get_n()).or_default().push((*pi, ktuples_to_set(kt), kt));
        }
        let nterm_idx = c.built.tables.terminal_names.len() as u16;
        let mut alpha: Vec<u16> = (5..nterm_idx.saturating_sub(1)).collect();
        alpha.push(END);
        let model_auto = c.built.model["lookahead_automata"].as_array().cloned().unwrap_or_default();
        for (ni, name) in c.built.tables.non_terminals.iter().enumerate() {
            let Some(prods) = per_nt.get(name) else { continue };
            let (prod0, trs, k) = &c.built.tables.automata[ni];
            // the same automaton through the export model
            let m = model_auto.iter().find(|a| a["non_terminal_index"].as_u64() == Some(ni as u64));
            let mtrs: Vec<(usize, u16, usize, i32)> = m
                .and_then(|a| a["transitions"].as_array())
                .map(|ts| ts.iter().map(|t| (t["from_state"].as_u64().unwrap_or(0) as usize, t["term"].as_u64().unwrap_or(0) as u16, t["to_state"].as_u64().unwrap_or(0) as usize, t["prod_num"].as_i64().unwrap_or(-1) as i32)).collect())
                .unwrap_or_default();
            let mprod0 = m.and_then(|a| a["prod0"].as_i64()).unwrap_or(-1) as i32;
            // un-minimised trie union through the public API
            let trie = guarded(|| {
                let mut it = prods.iter();
                let (p0, _, kt0) = it.next().unwrap();
                let mut d = LookaheadDFA::from_k_tuples(kt0, *p0);
                for (pi, _, kt) in it {
                    d = d.unite(&LookaheadDFA::from_k_tuples(kt, *pi))?;
                }
                Ok::<_, anyhow::Error>(d)
            });
            let kk = prods.iter().flat_map(|(_, s, _)| s.iter().map(|t| t.len())).max().unwrap_or(0);
            let depth = (*k).max(kk);
            let strings = match strings_upto(&alpha, depth, if quick { 4000 } else { 20000 }) {
                Some(s) => s,
                None => {
                    // sample: all tuples + one-symbol mutants + prefixes
                    let mut v: Vec<Tup> = vec![vec![]];
                    for (_, s, _) in prods {
                        for t in s {
                            v.push(t.clone());
                            for cut in 0..t.len() {
                                v.push(t[..cut].to_vec());
                            }
                            for pos in 0..t.len() {
                                for a in &alpha {
                                    let mut m = t.clone();
                                    m[pos] = *a;
                                    if let Some(e) = m.iter().position(|x| *x == END) {
                                        m.truncate(e + 1);
                                    }
                                    v.push(m);
                                }
                            }
                            let mut longer = t.clone();
                            if longer.last() != Some(&END) {
                                longer.push(alpha[rng.below(alpha.len())]);
                                v.push(longer);
                            }
                        }
                    }
                    rep.count("automata_sampled_not_enumerated");
                    v
                }
            };
            let wit = |d: String| json!({"case": case_json(&c), "non_terminal": name, "detail": d,
                "tuples": prods.iter().map(|(p, s, _)| (p, fmt_set(s))).collect::<Vec<_>>(),
                "automaton": {"prod0": prod0, "k": k, "transitions": trs}});
            let mut bad = false;
            for w in &strings {
                rep.eval();
                let expect: Option<usize> = if prods.len() == 1 && prods[0].1.iter().all(|t| t.is_empty()) {
                    // single production: no lookahead needed, prod0 predicts it on the empty string
                    if w.is_empty() { Some(prods[0].0) } else { None }
                } else {
                    prods.iter().find(|(_, s, _)| s.contains(w)).map(|(p, _, _)| *p)
                };
                let got = walk(*prod0, trs, w).filter(|p| *p >= 0).map(|p| p as usize);
                if got != expect {
                    rep.violation(json!({"kind": "automaton-vs-tuples"}), format!("automaton of {name} predicts {got:?} on {w:?}, lookahead sets say {expect:?}"), wit(format!("{w:?}")));
                    bad = true;
                    break;
                }
                let gotm = walk(mprod0, &mtrs, w).filter(|p| *p >= 0).map(|p| p as usize);
                if gotm != got {
                    rep.violation(json!({"kind": "model-vs-source-automaton"}), format!("export-model automaton of {name} predicts {gotm:?} on {w:?}, generated source {got:?}"), wit(format!("{w:?}")));
                    bad = true;
                    break;
                }
                if let Ok(Ok(tr)) = &trie {
                    let gott = walk_trie(tr, w).filter(|p| *p >= 0).map(|p| p as usize);
                    if gott != got {
                        rep.violation(json!({"kind": "minimization-changes-prediction"}), format!("un-minimised trie of {name} predicts {gott:?} on {w:?}, compiled automaton {got:?}"), wit(format!("{w:?}")));
                        bad = true;
                        break;
                    }
                }
            }
            if let Ok(Err(e)) = &trie {
                rep.violation(json!({"kind": "unite-conflict-on-accepted-grammar"}), format!("unite() reports a conflict for {name} of an accepted grammar: {e}"), wit(String::new()));
            }
            let nstates = trs.iter().map(|t| t.2).max().unwrap_or(0) + 1;
            if !bad && nstates >= 3 {
                rep.nontrivial_h(hash_str(&c.par) ^ hash_str(name));
                if nstates >= 5 {
                    rep.sample(json!({"grammar": c.par, "non_terminal": name, "k": k, "states": nstates, "strings_checked": strings.len(),
                        "tuples": prods.iter().map(|(p, s, _)| (p, fmt_set(s))).collect::<Vec<_>>()}));
                }
            }
        }
    });
    let rule = "case = (accepted LL(k) grammar, non-terminal); T_p = calculate_k_tuples per production; every string over terminals+$ up to the automaton's depth (enumerated up to 4000/20000 strings, else all tuples, their prefixes, one-symbol mutants and extensions) is walked strictly from state 0 through (a) the automaton in the generated source, (b) the automaton in the export model, (c) the un-minimised trie union built with the public from_k_tuples/unite; a valid production must be predicted exactly for the members of T_p and all three must agree; non-trivial = automaton with >= 3 states; distinct by (grammar, non-terminal)";
    let min = if quick { 300 } else { 4000 };
    finish(ctx, rep, rule, (min as f64 * ctx.scale) as u64, json!({}), t0.elapsed().as_secs_f64())
}
