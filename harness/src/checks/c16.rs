//! C16 - Unmatched input is an error unless explicitly allowed.

use super::c13::{byte_offsets, flat_ref};
use super::common::*;
use crate::ev::*;
use crate::gram::*;
use crate::inst::GenCfg;
use crate::oracle::Earley;
use crate::prng::hash_str;
use crate::run::{self, Opts};
use crate::scan::*;
use crate::wl;
use crate::wlscan::{ScanCase, modes_of};
use serde_json::json;
use std::time::Instant;

const INJECT: [&str; 14] = ["\n", "\r", "\t", " ", "\u{85}", "\u{2028}", "#", "\u{e9}", "@", "\r\n", "##", "\n\n", "\u{a0}", "\u{4e16}"];

pub fn run(ctx: &Ctx) -> i32 {
    let t0 = Instant::now();
    let quick = ctx.quick();
    let n = ctx.n(1500, 30000);
    let rep = run_sharded(ctx, "c16", n, move |rng, i, rep| {
        // configuration: auto_nl x auto_ws x allow_unmatched x comments x LL/LR (48 combinations)
        let cfg = i % 48;
        let auto_nl = cfg & 1 == 0;
        let auto_ws = cfg & 2 == 0;
        let allow = cfg & 4 != 0;
        let comments = (cfg >> 3) % 3;
        let lalr = (cfg >> 3) / 3 == 1;
        let base = wl::Profile { n_nts: (1, 3), n_terms: (2, 4), p_ebnf: 30, left_rec: lalr, ..wl::Profile::base("unmatched", if lalr { GType::LALR } else { GType::LL }) };
        let mut g = wl::gen_grammar(rng, &base);
        // one-character letter terminals only (they tokenize without separators)
        let letters = ["a", "b", "c", "d", "e", "f", "g", "h"];
        for (ti, t) in g.terms.iter_mut().enumerate() {
            *t = TermDef::raw(letters[ti]);
        }
        // every third case: the sentence lives in a second scanner state entered on '[' and left on
        // ']'; the two states differ in allow-unmatched, the state active at the injection decides
        let two_state = (i / 48) % 3 == 2;
        if two_state {
            let inner = g.start.clone();
            for t in g.terms.iter_mut() {
                t.states = vec![1];
            }
            let open = g.terms.len();
            g.terms.push(TermDef::raw("["));
            let mut close = TermDef::raw("]");
            close.states = vec![1];
            g.terms.push(close);
            g.rules.insert(0, Rule { name: "Wrap".into(), alts: vec![vec![Factor::N("Open".into(), AstCtl::default()), Factor::N(inner, AstCtl::default()), Factor::N("Close".into(), AstCtl::default())]] });
            g.rules.push(Rule { name: "Open".into(), alts: vec![vec![Factor::T(open, AstCtl::default())]] });
            g.rules.push(Rule { name: "Close".into(), alts: vec![vec![Factor::T(open + 1, AstCtl::default())]] });
            g.start = "Wrap".into();
            g.states.push(ScannerState::new("Inner"));
            g.states[0].on.push((vec!["Open".into()], Trans::Enter("Inner".into())));
            g.states[1].on.push((vec!["Close".into()], Trans::Enter("INITIAL".into())));
        }
        let allow_of: Vec<bool> = if two_state { vec![allow, !allow] } else { vec![allow] };
        for (si, st) in g.states.iter_mut().enumerate() {
            st.auto_nl = auto_nl;
            st.auto_ws = auto_ws;
            st.allow_unmatched = allow_of[si];
            if comments >= 1 {
                st.line_comments.push(("//".into(), Quote::Raw));
            }
            if comments == 2 {
                st.block_comments.push((("/*".into(), Quote::Raw), ("*/".into(), Quote::Raw)));
            }
        }
        let res: Vec<Re> = g.terms.iter().map(|t| Re::lit(&t.text)).collect();
        let nterm = res.len();
        let sc = ScanCase { g: g.clone(), res, la_res: vec![None; nterm] };
        let mut modes = modes_of(&sc);
        // the reference is asked: "does any rule match here?" - without the catch-all
        for m in modes.iter_mut() {
            m.pats.retain(|p| p.kind != Kind::Error);
        }
        let k = draw_k(rng, &g);
        let c = match prepare_grammar(g, "unmatched", k, &GenCfg::default()) {
            Prep::Ready(c) => c,
            Prep::Rejected(st, _) => {
                rep.count(&format!("grammar_rejected_{st:?}"));
                return;
            }
            Prep::Panicked(_, _) => {
                rep.inconclusive("generator panicked (C26)");
                return;
            }
        };
        if c.built.resolved_conflicts > 0 {
            return;
        }
        let ear = Earley::new(&c.bnf);
        let sep = if auto_ws { " " } else if auto_nl { "\n" } else { "" };
        let nsent = if quick { 12 } else { 40 };
        for _ in 0..nsent {
            let budget = *rng.pick(&[1usize, 2, 4, 8]);
            let Some(w) = wl::random_sentence(&c.bnf, rng, budget) else { continue };
            if w.len() > 20 || !ear.accepts(&w) {
                continue;
            }
            let lex: Vec<&str> = w.iter().map(|t| c.g.terms[*t].samples[0].as_str()).collect();
            // the plain sentence must parse (otherwise the case says nothing)
            let plain = lex.join(sep);
            let o0 = run::parse(&c.built, &plain, &Opts { budget: budget_for(&c, w.len()), ..Default::default() });
            if !o0.ok {
                rep.inconclusive("plain sentence rejected (C01)");
                continue;
            }
            // inject at every token boundary (incl. start and end)
            for pos in 0..=w.len() {
                let inj = *rng.pick(&INJECT);
                let mut text = String::new();
                let mut inj_at = 0;
                for (ti, l) in lex.iter().enumerate() {
                    if ti == pos {
                        inj_at = text.len();
                        text.push_str(inj);
                    }
                    if ti > 0 && ti != pos {
                        text.push_str(sep);
                    }
                    text.push_str(l);
                }
                if pos == w.len() {
                    inj_at = text.len();
                    text.push_str(inj);
                }
                // does the reference say the injected run contains unmatched text?
                let chars: Vec<char> = text.chars().collect();
                let offs = byte_offsets(&text);
                let ref_toks = reference_scan(&modes, &chars);
                let reference = flat_ref(&ref_toks, &offs);
                let inj_end = inj_at + inj.len();
                let gap_modes: Vec<usize> = ref_toks.iter().filter(|t| t.kind == Kind::Gap && offs[t.start] < inj_end && offs[t.end] > inj_at).map(|t| t.mode).collect();
                let unmatched = !gap_modes.is_empty();
                // all unmatched pieces of one injection lie in one scanner state
                if gap_modes.iter().any(|m| *m != gap_modes[0]) {
                    rep.count("injection_spans_states");
                    continue;
                }
                let allow = unmatched && allow_of[gap_modes[0]];
                // the significant tokens must still be the sentence (the injection may glue or split)
                let sig: Vec<usize> = reference.iter().filter_map(|t| if let Kind::Term(x) = t.0 { Some(x) } else { None }).collect();
                if !unmatched || sig != w.iter().map(|t| c.g.canon_term(*t)).collect::<Vec<_>>() {
                    rep.count("injection_is_matched_by_some_rule");
                    continue;
                }
                let o = run::parse(&c.built, &text, &Opts { budget: budget_for(&c, w.len() + 4), ..Default::default() });
                rep.eval();
                if o.panic.is_some() || o.clock_exceeded {
                    rep.inconclusive("parser panicked or ran away (C19)");
                    continue;
                }
                let wit = || json!({"case": case_json(&c), "plain": plain, "input": text, "injected": inj, "at_byte": inj_at, "allow_unmatched_in_the_active_state": allow, "two_scanner_states": two_state, "auto_newline": auto_nl, "auto_ws": auto_ws});
                if !allow {
                    if o.ok {
                        rep.violation(
                            json!({"kind": "unmatched-text-accepted", "auto_newline": auto_nl,
                                   "injected_consists_of": if inj.chars().all(|c| c == '\n') { "line-feeds" } else { "other" }}),
                            format!("input with unmatched text {inj:?} parses successfully although the state does not allow unmatched input"),
                            wit(),
                        );
                    }
                } else if !o.ok {
                    rep.violation(json!({"kind": "allowed-unmatched-text-rejected", "injected": inj}), format!("unmatched text {inj:?} makes the parse fail although %allow_unmatched is set"), wit());
                } else if let Some(root) = &o.tree {
                    let mut leaves = vec![];
                    root.leaves(&mut leaves);
                    let covered = leaves.iter().any(|t| t.ty == 65534 && (t.start as usize) < inj_end && (t.end as usize) > inj_at);
                    if !covered {
                        rep.violation(json!({"kind": "unmatched-text-missing-from-tree"}), format!("unmatched text {inj:?} is not kept in the parse tree"), wit());
                    }
                }
                rep.nontrivial_h(hash_str(&c.par) ^ hash_str(&text));
                if pos == 0 {
                    rep.sample(json!({"grammar": c.par, "input": text, "injected": inj, "allow_unmatched": allow}));
                }
            }
        }
    });
    let rule = "case = (one of 48 configurations auto_newline x auto_ws x allow_unmatched x {no, line, line+block comments} x LL/LALR over a small generated grammar with one-character terminals; every third case wraps the grammar in '[' .. ']' that switch to a second scanner state with the opposite allow-unmatched setting - the setting of the state active at the injection decides, member sentence, injection of a character or run from {\\n, \\r, \\t, blank, U+0085, U+2028, U+00A0, #, e-acute, @, CJK, \\r\\n, ##, \\n\\n} at every token boundary); only injections for which the reference tokenizer (no catch-all rule) finds unmatched text and unchanged significant tokens are used; without allow-unmatched the parse must fail, with it the parse must succeed and a gap leaf must cover the text; distinct by (grammar, input)";
    let min = if quick { 2000 } else { 30000 };
    finish(ctx, rep, rule, (min as f64 * ctx.scale) as u64, json!({}), t0.elapsed().as_secs_f64())
}
