//! C26 - parol never panics on any grammar text.

use super::common::*;
use crate::ev::*;
use crate::gram::GType;
use crate::inst::{self, GenCfg};
use crate::partext::*;
use crate::prng::hash_str;
use crate::run::guarded;
use crate::wl;
use crate::wlscan::*;
use parol::parser::parol_grammar::GrammarType;
use parol::{calculate_lalr1_parse_table, calculate_lookahead_dfas, generate_lalr1_parser_export_model, generate_lalr1_parser_source, generate_lexer_source, generate_parser_export_model, generate_parser_source, render_par_string};
use serde_json::json;
use std::time::Instant;

/// Runs every stage; returns the name of the last stage reached (Err results end the pipeline).
fn pipeline(text: &str, k: usize, cfg: &GenCfg) -> &'static str {
    let Ok((gc0, mut gc)) = inst::front(text) else { return "front-end-error" };
    let _ = render_par_string(&gc0, true);
    let _ = render_par_string(&gc, false);
    match gc.grammar_type {
        GrammarType::LLK => {
            let Ok(dfas) = calculate_lookahead_dfas(&gc, k) else { return "analysis-error" };
            let kk = dfas.values().map(|d| d.k).max().unwrap_or(0);
            gc.update_lookahead_size(kk);
            let Ok(lexer) = generate_lexer_source(&gc, cfg) else { return "lexer-error" };
            let _ = generate_parser_source(&gc, &lexer, cfg, &dfas, false);
            let _ = generate_parser_export_model(&gc, &dfas);
        }
        GrammarType::LALR1 => {
            let Ok((table, _)) = calculate_lalr1_parse_table(&gc) else { return "analysis-error" };
            gc.update_lookahead_size(1);
            let Ok(lexer) = generate_lexer_source(&gc, cfg) else { return "lexer-error" };
            let _ = generate_lalr1_parser_source(&gc, &lexer, cfg, &table, false);
            let _ = generate_lalr1_parser_export_model(&gc, &table);
        }
    }
    let _ = inst::trait_source(&gc, cfg);
    "generated"
}

pub fn run(ctx: &Ctx) -> i32 {
    let t0 = Instant::now();
    let mut profs = wl::ll_profiles();
    profs.extend(wl::lr_profiles());
    profs.push(wl::Profile { names: wl::Names::Idents, terms: wl::Terms::NameClash, n_terms: (3, 8), ..wl::Profile::base("names", GType::LL) });
    profs.push(wl::Profile { left_rec: true, p_back: 60, p_guard: 0, p_empty_alt: 30, ..wl::Profile::base("wild-ll", GType::LL) });
    let profiles = static_profiles(profs);
    let n = ctx.n(12000, 240000);
    let rep = run_sharded(ctx, "c26", n, move |rng, i, rep| {
        // a valid text first
        let base: String = match i % 5 {
            0 if i % 15 == 0 || i % 15 == 10 => {
                // scanner directives (%on, %skip) that name arbitrary non-terminals: empty
                // productions, sequences, alternatives, undefined names
                let sp = ScanProfile { max_modes: 3, p_lookahead: 10, p_skip: 60, p_allow_unmatched: 20, p_auto_off: 20, comments: false, lalr: i % 30 == 0 };
                let mut g = gen_scan_case(rng, &sp).g;
                use crate::gram::{AstCtl, Factor, Rule, ScannerState, Trans};
                if rng.chance(2, 3) {
                    g.rules.push(Rule { name: "Empty".into(), alts: vec![vec![]] });
                }
                if rng.chance(1, 2) && !g.terms.is_empty() {
                    g.rules.push(Rule { name: "Two".into(), alts: vec![vec![Factor::T(0, AstCtl::default()), Factor::T(0, AstCtl::default())]] });
                }
                if rng.chance(1, 2) && !g.terms.is_empty() {
                    g.rules.push(Rule { name: "Alt2".into(), alts: vec![vec![Factor::T(0, AstCtl::default())], vec![]] });
                }
                if g.states.len() < 2 && rng.chance(1, 2) {
                    g.states.push(ScannerState::new("Other"));
                }
                // comment delimiters from a hostile pool (dangling escapes, regex meta characters,
                // empty, non-ASCII), in every quoting style
                if rng.chance(1, 3) {
                    // only raw literals elsewhere: a delimiter literal that ends in a backslash then
                    // really is the last double-quoted / slash-quoted literal of the text
                    for t in g.terms.iter_mut() {
                        t.quote = crate::gram::Quote::Raw;
                        t.la = None;
                    }
                }
                let hostile = ["\\*\\", "\\", "a\\", "*/", "\\\\", "(*", "\\(\\*", "-->", "]]>", ".", "\\[", "+", "x{2}", "\u{e9}", "\\d", "[", "(", "", "\\*\\)", "*)"];
                let qs = [crate::gram::Quote::Raw, crate::gram::Quote::Legacy, crate::gram::Quote::Regex];
                if rng.chance(2, 3) {
                    let st = rng.below(g.states.len());
                    let q = *rng.pick(&qs);
                    let a = rng.pick(&hostile).to_string();
                    let b = rng.pick(&hostile).to_string();
                    g.states[st].block_comments.push(((a, q), (b, q)));
                }
                if rng.chance(1, 3) {
                    let st = rng.below(g.states.len());
                    let q = *rng.pick(&qs);
                    let a = rng.pick(&hostile).to_string();
                    g.states[st].line_comments.push((a, q));
                }
                let mut names = g.nt_names();
                names.push("Undefined".into());
                let nstates = g.states.len();
                for _ in 0..rng.range(1, 3) {
                    let st = rng.below(nstates);
                    let n = rng.pick(&names[..]).clone();
                    if rng.chance(1, 2) {
                        g.states[st].skip.push(n);
                    } else {
                        let target = g.states[rng.below(nstates)].name.clone();
                        let tr = match rng.below(3) { 0 => Trans::Enter(target), 1 => Trans::Push(target), _ => Trans::Pop };
                        g.states[st].on.push((vec![n], tr));
                    }
                }
                g.to_par()
            }
            0 => {
                let sp = ScanProfile { max_modes: 3, p_lookahead: 30, p_skip: 40, p_allow_unmatched: 30, p_auto_off: 30, comments: true, lalr: i % 10 == 5 };
                let mut g = gen_scan_case(rng, &sp).g;
                wl::annotate(&mut g, rng);
                g.to_par()
            }
            1 => wl::gen_non_lalr_template(rng).to_par(),
            2 => wl::gen_lr_template(rng).to_par(),
            _ => {
                let p = &profiles[(i as usize) % profiles.len()];
                let mut g = wl::gen_grammar(rng, p);
                wl::decorate_scanner(&mut g, rng);
                if rng.chance(1, 2) {
                    wl::annotate(&mut g, rng);
                }
                g.to_par()
            }
        };
        // verbatim (unescaped) comment delimiter literals - dangling escapes, half escapes, meta
        // characters - injected as text after the first line of an otherwise valid grammar
        let base = if rng.chance(1, 6) {
            let mut par = base;
            let verb = ["\\*\\", "\\", "a\\", "\\(\\*", "\\*\\)", "*/", "(*", "[", "(", "+", "x{", "\\x", "\\u{", "", "-->", "\\d+"];
            let d = *rng.pick(&["\"", "/", "'"]);
            let a = rng.pick(&verb).to_string();
            let b = rng.pick(&verb).to_string();
            let line = if rng.chance(3, 4) { format!("%block_comment {d}{a}{d} {d}{b}{d}\n") } else { format!("%line_comment {d}{a}{d}\n") };
            if let Some(pos) = par.find('\n') {
                par.insert_str(pos + 1, &line);
            }
            par
        } else {
            base
        };
        let (text, family) = match i % 3 {
            0 => (base, "valid"),
            1 => (join(&mutate_tokens(&lex(&base), rng)), "token-mutant"),
            _ => {
                if rng.chance(1, 2) {
                    (mutate_bytes(&base, rng), "byte-mutant")
                } else {
                    (format!("%start S %% {}", soup(rng, 14)), "token-soup")
                }
            }
        };
        let k = *rng.pick(&[1usize, 1, 2, 2, 3, 4, 5]);
        let cfg = GenCfg { minimize_boxed: i % 2 == 0, range: i % 4 == 1, node_kind_enums: i % 8 == 3, ..Default::default() };
        rep.eval();
        match guarded(|| pipeline(&text, k, &cfg)) {
            Ok(stage) => {
                rep.count(&format!("{family}_{stage}"));
                if stage == "generated" || stage == "analysis-error" {
                    rep.nontrivial_h(hash_str(&text));
                }
                if family != "valid" && stage == "generated" && rep.samples.len() < 3 {
                    rep.sample(json!({"family": family, "text": text, "K": k, "reached": stage}));
                }
            }
            Err(pm) => {
                let loc = panic_location(&pm);
                // classifier for the known finding "lalry's unreachable!() on a conflict that
                // involves the accept action": is the grammar handed to the table construction
                // LALR(1) according to the independent construction?
                let mut sig = json!({"kind": "panic", "location": loc});
                if loc.starts_with("lalry-") {
                    let verdict = guarded(|| inst::front(&text).ok().map(|(_, gc)| crate::oracle::lalr1_conflicts(&super::conv::cfg_to_bnf(&gc.cfg), 3000)));
                    let lalr = match verdict {
                        Ok(Some(crate::oracle::LalrVerdict::NoConflict)) => "yes",
                        Ok(Some(crate::oracle::LalrVerdict::Conflict(_))) => "no",
                        _ => "unknown",
                    };
                    sig["grammar_is_lalr1"] = json!(lalr);
                }
                rep.violation(
                    sig,
                    format!("parol panicked at {loc}: {}", truncate(&pm, 200)),
                    json!({"family": family, "text": text, "K": k, "panic": pm}),
                );
            }
        }
    });
    let rule = "case = grammar text: 1/3 valid generated grammars of every profile (LL, LALR, scanner layouts, annotations, classic non-LALR templates, keyword-like names, left-recursive and cyclic 'wild' grammars), 1/3 token-level mutants of them (delete/insert/replace/swap/duplicate over the PAR vocabulary), 1/3 byte-level mutants (random bytes, truncation, segment copies; lossy UTF-8) and PAR token soup; each text runs through parse -> GrammarConfig -> check/transform -> render_par_string -> LL(k) analysis (K 1..5) or LALR(1) table -> lexer, parser and trait source + export model, all under catch_unwind with a recording panic hook; any panic is a violation (signature = source location); non-trivial = text that reached the analysis; distinct by text";
    let min = if ctx.quick() { 1500 } else { 25000 };
    finish(ctx, rep, rule, (min as f64 * ctx.scale) as u64, json!({}), t0.elapsed().as_secs_f64())
}
