//! C13 - The scanner tokenizes by the documented rules.

use super::common::*;
use crate::ev::*;
use crate::inst::GenCfg;
use crate::prng::hash_str;
use crate::run::{self, Tok};
use crate::scan::*;
use crate::wlscan::*;
use serde_json::json;
use std::time::Instant;

/// parol token -> reference kind
pub fn kind_of(c: &Case, t: &Tok) -> Kind {
    let last = (c.built.tables.terminal_names.len() - 1) as u16;
    match t.ty {
        1 => Kind::Newline,
        2 => Kind::Whitespace,
        3 => Kind::LineComment,
        4 => Kind::BlockComment,
        65534 => Kind::Gap,
        x if x == last => Kind::Error,
        x => match c.term_of_index.get(x as usize).cloned().flatten() {
            Some(id) => Kind::Term(id),
            None => Kind::Error,
        },
    }
}

pub fn byte_offsets(input: &str) -> Vec<usize> {
    let mut v: Vec<usize> = input.char_indices().map(|(i, _)| i).collect();
    v.push(input.len());
    v
}

pub type Flat = Vec<(Kind, usize, usize, bool)>;

pub fn flat_ref(toks: &[RefTok], offs: &[usize]) -> Flat {
    toks.iter()
        .map(|t| {
            let builtin_skip = matches!(t.kind, Kind::Newline | Kind::Whitespace | Kind::LineComment | Kind::BlockComment | Kind::Gap);
            (t.kind.clone(), offs[t.start], offs[t.end], builtin_skip || t.state_skip)
        })
        .collect()
}

pub fn flat_real(c: &Case, toks: &[(Tok, usize)]) -> Flat {
    toks.iter().map(|(t, _)| (kind_of(c, t), t.start as usize, t.end as usize, t.effective_skip)).collect()
}

pub fn run(ctx: &Ctx) -> i32 {
    let t0 = Instant::now();
    let quick = ctx.quick();
    let n = ctx.n(2500, 50000);
    let rep = run_sharded(ctx, "c13", n, move |rng, i, rep| {
        let sp = ScanProfile {
            max_modes: 3,
            p_lookahead: if i % 3 == 0 { 40 } else { 10 },
            p_skip: 20,
            p_allow_unmatched: 20,
            p_auto_off: 15,
            comments: false,
            lalr: i % 5 == 4,
        };
        let sc = gen_scan_case(rng, &sp);
        let modes = modes_of(&sc);
        let g = sc.g.clone();
        let c = match prepare_grammar(g, "scanner-states", 3, &GenCfg::default()) {
            Prep::Ready(c) => c,
            Prep::Rejected(st, msg) => {
                rep.count(&format!("grammar_rejected_{st:?}"));
                if std::env::var("PV_DEBUG").is_ok() {
                    eprintln!("REJECT {st:?} {}\n{}", truncate(&msg, 300), sc.g.to_par());
                }
                return;
            }
            Prep::Panicked(m, _) => {
                rep.inconclusive(&format!("generator panicked (C26): {}", truncate(&m, 100)));
                return;
            }
        };
        let ninputs = per_case(if quick { 60 } else { 250 });
        let mut nontrivial_inputs = 0;
        for n in 0..ninputs {
            let input = gen_scan_input(&sc, rng, if n % 4 == 0 { 20 } else { 8 });
            let chars: Vec<char> = input.chars().collect();
            let offs = byte_offsets(&input);
            let reference = flat_ref(&reference_scan(&modes, &chars), &offs);
            let mut first: Option<Flat> = None;
            for (k, sched) in [(1usize, 0usize), (2, 1), (3, 2), (5, 0), (10, 1), (1, 2)] {
                rep.eval();
                let real = match run::scan_all(&c.built, &input, k, sched) {
                    Ok(t) => flat_real(&c, &t),
                    Err(e) => {
                        if e.starts_with("panic") {
                            rep.violation(json!({"kind": "panic", "location": panic_location(&e[7..])}), format!("token stream panicked: {e}"), json!({"grammar": c.par, "input": input, "k": k}));
                        } else {
                            rep.inconclusive(&format!("token stream error: {}", truncate(&e, 60)));
                        }
                        continue;
                    }
                };
                if real != reference {
                    let pos = real.iter().zip(reference.iter()).position(|(a, b)| a != b).unwrap_or(real.len().min(reference.len()));
                    rep.violation(
                        json!({"kind": "token-sequence-differs-from-reference"}),
                        format!("token #{pos}: scanner delivered {:?}, documented rules give {:?}", real.get(pos), reference.get(pos)),
                        json!({"grammar": c.par, "input": input, "k": k, "schedule": sched, "real": format!("{real:?}"), "reference": format!("{reference:?}")}),
                    );
                    break;
                }
                if let Some(f) = &first {
                    if *f != real {
                        rep.violation(json!({"kind": "tokens-depend-on-lookahead-or-schedule"}), format!("token sequence differs between lookahead sizes / consumption schedules (k={k}, schedule={sched})"), json!({"grammar": c.par, "input": input}));
                        break;
                    }
                } else {
                    first = Some(real);
                }
            }
            // non-trivial: a mode switch, a tie/prefix situation or a lookahead-filtered match
            let switched = reference.len() >= 2 && modes.len() > 1;
            if switched || reference.iter().any(|t| matches!(t.0, Kind::Error | Kind::Gap)) {
                nontrivial_inputs += 1;
                rep.nontrivial_h(hash_str(&c.par) ^ hash_str(&input));
            }
        }
        if nontrivial_inputs > 0 {
            rep.sample(json!({"grammar": c.par, "inputs": ninputs, "example_input": gen_scan_input(&sc, rng, 8)}));
        }
    });
    let rule = "case = (scanner layout: 3-7 terminals from a regex-AST pool incl. keyword/identifier overlaps, prefixes, equal-length ties, positive/negative lookahead, raw/legacy/regex quoting; 1-3 scanner states with enter/push/pop transitions incl. pop on an empty stack, skip lists, auto-ws/newline off, allow-unmatched; LL and LALR) x input glued from the terminals' own languages with and without separators, junk and non-ASCII; the token sequence (kind, byte span, effective-skip flag) delivered by the real TokenStream under lookahead sizes 1,2,3,5,10 and three consumption schedules must equal the reference tokenizer's (longest match, first declared on ties, lookahead filter, mode stack) and each other; non-trivial = input with several tokens in a multi-state layout or with unmatched text; distinct by (grammar, input)";
    let min = if quick { 2000 } else { 30000 };
    finish(ctx, rep, rule, (min as f64 * ctx.scale) as u64, json!({}), t0.elapsed().as_secs_f64())
}
