//! C17 - Skipped tokens never influence parsing; comments are delivered once, in order.

use super::common::*;
use crate::ev::*;
use crate::gram::*;
use crate::inst::GenCfg;
use crate::prng::{Rng, hash_str};
use crate::run::{self, Child, Node, Opts};
use crate::wl;
use serde_json::json;
use std::time::Instant;

/// tree with skip leaves removed, as a comparable string
fn shape(n: &Node, out: &mut String) {
    match n {
        Node::Leaf(t) => {
            if !t.effective_skip {
                out.push_str(&format!("{}:{:?} ", t.ty, t.text));
            }
        }
        Node::Inner(name, ch) => {
            out.push_str(name);
            out.push('(');
            for c in ch {
                shape(c, out);
            }
            out.push(')');
        }
    }
}

/// Two-state template: INITIAL skips Noise; state IN (entered by '(' and left by ')') has its
/// own skip list. Noise '~' is valid in both states.
fn gen_two_state(rng: &mut Rng, lalr: bool) -> (Grammar, Vec<Vec<&'static str>>) {
    let mut g = Grammar::new("S", if lalr { GType::LALR } else { GType::LL });
    g.states.push(ScannerState::new("IN"));
    let in_both = vec![0usize, 1];
    let mk = |text: &str, states: Vec<usize>| TermDef { text: text.into(), quote: Quote::Raw, la: None, samples: vec![text.into()], states };
    // 0 a, 1 (, 2 ), 3 x, 4 ~, 5 -
    g.terms = vec![mk("a", vec![0]), mk("(", vec![0]), mk(")", vec![1]), mk("x", vec![1]), mk("~", in_both.clone()), mk("-", vec![1])];
    let t = |i: usize| Factor::T(i, AstCtl::default());
    let n = |s: &str| Factor::N(s.into(), AstCtl::default());
    g.rules.push(Rule { name: "S".into(), alts: vec![vec![Factor::Rep(vec![vec![n("Item")]])]] });
    g.rules.push(Rule { name: "Item".into(), alts: vec![vec![t(0)], vec![n("Open"), Factor::Rep(vec![vec![n("Inner")]]), n("Close")]] });
    g.rules.push(Rule { name: "Open".into(), alts: vec![vec![t(1)]] });
    g.rules.push(Rule { name: "Close".into(), alts: vec![vec![t(2)]] });
    let noise_significant_in_in = rng.chance(1, 2);
    let mut inner = vec![vec![t(3)]];
    if noise_significant_in_in {
        inner.push(vec![n("Noise")]);
    }
    g.rules.push(Rule { name: "Inner".into(), alts: inner });
    g.rules.push(Rule { name: "Noise".into(), alts: vec![vec![t(4)]] });
    g.rules.push(Rule { name: "Dash".into(), alts: vec![vec![t(5)]] });
    g.states[0].on.push((vec!["Open".into()], Trans::Enter("IN".into())));
    g.states[1].on.push((vec!["Close".into()], Trans::Enter("INITIAL".into())));
    g.states[0].skip.push("Noise".into());
    g.states[1].skip.push("Dash".into());
    if !noise_significant_in_in {
        g.states[1].skip.push("Noise".into());
    }
    // skip material per state: lexemes of skipped terminals
    let skip0 = vec!["~", " ", "\n"];
    let skip1 = if noise_significant_in_in { vec!["-", " ", "\t"] } else { vec!["-", "~", " "] };
    (g, vec![skip0, skip1])
}

/// Nested-comment template: the skipped tokens themselves switch scanner states. INITIAL skips
/// the comment start (which pushes COMMENT); COMMENT skips start (push), end (pop) and body.
fn gen_nested_comment(lalr: bool) -> (Grammar, Vec<Vec<&'static str>>) {
    let mut g = Grammar::new("S", if lalr { GType::LALR } else { GType::LL });
    g.states.push(ScannerState::new("COMMENT"));
    let mk = |text: &str, states: Vec<usize>| TermDef { text: text.into(), quote: Quote::Raw, la: None, samples: vec![text.into()], states };
    // 0 a, 1 b, 2 (*, 3 *), 4 c
    g.terms = vec![mk("a", vec![0]), mk("b", vec![0]), mk("(*", vec![0, 1]), mk("*)", vec![1]), mk("c", vec![1])];
    let t = |i: usize| Factor::T(i, AstCtl::default());
    let n = |s: &str| Factor::N(s.into(), AstCtl::default());
    g.rules.push(Rule { name: "S".into(), alts: vec![vec![Factor::Rep(vec![vec![n("Item")]])]] });
    g.rules.push(Rule { name: "Item".into(), alts: vec![vec![t(0)], vec![t(1), t(0)]] });
    g.rules.push(Rule { name: "CStart".into(), alts: vec![vec![t(2)]] });
    g.rules.push(Rule { name: "CEnd".into(), alts: vec![vec![t(3)]] });
    g.rules.push(Rule { name: "CBody".into(), alts: vec![vec![t(4)]] });
    g.states[0].on.push((vec!["CStart".into()], Trans::Push("COMMENT".into())));
    g.states[1].on.push((vec!["CStart".into()], Trans::Push("COMMENT".into())));
    g.states[1].on.push((vec!["CEnd".into()], Trans::Pop));
    g.states[0].skip.push("CStart".into());
    for s in ["CStart", "CEnd", "CBody"] {
        g.states[1].skip.push(s.into());
    }
    let skip0 = vec!["(*c*)", "(* c (* c *) c *)", " ", "(**)", "\n", "(*(**)*)", "(* c c *)"];
    (g, vec![skip0, vec![]])
}

pub fn run(ctx: &Ctx) -> i32 {
    let t0 = Instant::now();
    let mut profs = wl::ll_profiles();
    profs.truncate(3);
    profs.extend(wl::lr_profiles().into_iter().take(4));
    let profiles = static_profiles(profs);
    let quick = ctx.quick();
    let n = ctx.n(2500, 50000);
    let rep = run_sharded(ctx, "c17", n, move |rng, i, rep| {
        let p = &profiles[(i as usize) % profiles.len()];
        let lalr = p.gtype == GType::LALR;
        // three families: (a) generated grammar + comments, (b) + %skip Noise, (c) two-state template
        let family = if i % 6 == 5 { 3 } else { i % 3 };
        let (g, state_skips): (Grammar, Option<Vec<Vec<&'static str>>>) = match family {
            2 => {
                let (g, s) = gen_two_state(rng, lalr);
                (g, Some(s))
            }
            3 => {
                let (g, s) = gen_nested_comment(lalr);
                (g, Some(s))
            }
            _ => {
                let mut g = if lalr && i % 2 == 0 { wl::gen_lr_template(rng) } else { wl::gen_grammar(rng, p) };
                wl::decorate_scanner(&mut g, rng);
                g.states[0].allow_unmatched = false;
                if family == 1 {
                    // a state-specific skip list for INITIAL: Noise '~'
                    g.terms.push(TermDef::raw("~"));
                    let ti = g.terms.len() - 1;
                    g.rules.push(Rule { name: "Noise".into(), alts: vec![vec![Factor::T(ti, AstCtl::default())]] });
                    g.states[0].skip.push("Noise".into());
                }
                (g, None)
            }
        };
        let noise_term = g.terms.iter().position(|t| t.text == "~");
        // template families: the intended significant tokens come from the reference tokenizer
        // (own matcher, state-specific skip lists), not from the scanner under test
        let ref_modes = if family >= 2 {
            let res: Vec<crate::scan::Re> = g.terms.iter().map(|t| crate::scan::Re::lit(&t.text)).collect();
            let nterm = res.len();
            Some(crate::wlscan::modes_of(&crate::wlscan::ScanCase { g: g.clone(), res, la_res: vec![None; nterm] }))
        } else {
            None
        };
        let k = draw_k(rng, &g);
        let c = match prepare_grammar(g, p.name, k, &GenCfg::default()) {
            Prep::Ready(c) => c,
            Prep::Rejected(st, msg) => {
                rep.count(&format!("grammar_rejected_{st:?}"));
                if family == 2 && std::env::var("PV_DEBUG").is_ok() {
                    eprintln!("REJECT {st:?} {}", truncate(&msg, 400));
                }
                return;
            }
            Prep::Panicked(_, _) => {
                rep.inconclusive("generator panicked (C26)");
                return;
            }
        };
        if c.built.resolved_conflicts > 0 {
            return;
        }
        rep.count(&format!("accepted_family_{family}_{}", if lalr { "lr" } else { "ll" }));
        let nstrings = if quick { 12 } else { 40 };
        let nrender = if quick { 6 } else { 16 };
        for sidx in 0..nstrings {
            let budget = *rng.pick(&[1usize, 3, 6, 12, 24]);
            let Some(mut w) = wl::random_sentence(&c.bnf, rng, budget) else { continue };
            // the noise terminal is never part of the significant string in families 0/1
            if family == 1 {
                if let Some(nt) = noise_term {
                    w.retain(|t| *t != nt);
                }
            }
            if w.len() > 40 {
                continue;
            }
            if sidx % 4 == 3 {
                w = wl::mutate(&w, c.g.terms.len(), rng);
                if family == 1 {
                    if let Some(nt) = noise_term {
                        w.retain(|t| *t != nt);
                    }
                }
            }
            let mut base: Option<(bool, String, Vec<(usize, Vec<String>)>)> = None;
            for r in 0..nrender {
                // rendering
                let text = match &state_skips {
                    None => {
                        let mut s = if r == 0 { wl::render_tokens(&c.g, &w, rng, false) } else { wl::render_rich(&c.g, &w, rng) };
                        if family == 1 && r > 0 {
                            // sprinkle skipped noise tokens at token boundaries (blank-separated)
                            let parts: Vec<String> = s.split(' ').map(|x| x.to_string()).collect();
                            s = String::new();
                            for (pi, part) in parts.iter().enumerate() {
                                if pi > 0 {
                                    s.push(' ');
                                    if rng.chance(1, 3) {
                                        s.push_str("~ ");
                                    }
                                }
                                s.push_str(part);
                            }
                            if rng.chance(1, 2) {
                                s.push_str(" ~");
                            }
                            if rng.chance(1, 2) {
                                s = format!("~ {s}");
                            }
                        }
                        s
                    }
                    Some(skips) => {
                        // two-state template: track the state while rendering
                        let mut s = String::new();
                        let mut st = 0usize;
                        let noise_sig = !c.g.states[1].skip.contains(&"Noise".to_string());
                        for (wi, t) in w.iter().enumerate() {
                            if r > 0 || wi > 0 {
                                let nsk = if r == 0 { 0 } else { rng.range(0, 3) };
                                for _ in 0..nsk {
                                    s.push_str(*rng.pick(&skips[st]));
                                }
                                if (r == 0 || family == 3) && st == 0 {
                                    s.push(' ');
                                }
                            }
                            if *t < c.g.terms.len() {
                                s.push_str(&c.g.terms[*t].samples[0]);
                                if family == 2 {
                                    if *t == 1 {
                                        st = 1;
                                    } else if *t == 2 {
                                        st = 0;
                                    }
                                }
                            } else {
                                s.push('#');
                            }
                        }
                        let _ = noise_sig;
                        if r > 0 {
                            for _ in 0..rng.range(0, 2) {
                                s.push_str(*rng.pick(&skips[st]));
                            }
                        }
                        s
                    }
                };
                let Ok(scanned) = run::scan_all(&c.built, &text, 1, 0) else {
                    rep.inconclusive("scan failed");
                    continue;
                };
                // the significant tokens must be the intended string, otherwise the rendering
                // changed more than skip material (C13's subject)
                let sig: Vec<usize> = scanned.iter().filter(|(t, _)| !t.effective_skip).map(|(t, _)| c.term_of_index.get(t.ty as usize).cloned().flatten().unwrap_or(999)).collect();
                let want: Vec<usize> = w.iter().map(|t| if *t < c.g.terms.len() { c.g.canon_term(*t) } else { 999 }).collect();
                if let Some(modes) = &ref_modes {
                    let chars: Vec<char> = text.chars().collect();
                    let rt = crate::scan::reference_scan(modes, &chars);
                    let sig_ref: Vec<usize> = rt
                        .iter()
                        .filter_map(|t| match t.kind {
                            crate::scan::Kind::Term(x) if !t.state_skip => Some(x),
                            crate::scan::Kind::Error | crate::scan::Kind::Gap => Some(999),
                            _ => None,
                        })
                        .collect();
                    if sig_ref != sig {
                        rep.eval();
                        rep.violation(
                            json!({"kind": "skip-list-applied-in-the-wrong-state", "family": family}),
                            format!("the significant tokens the scanner delivers {sig:?} differ from those of the reference tokenizer {sig_ref:?}: a token of a state's skip list reached the parser or a significant token was skipped"),
                            json!({"case": case_json(&c), "input": text}),
                        );
                        continue;
                    }
                }
                if sig != want {
                    rep.inconclusive("rendering changed the significant tokens");
                    continue;
                }
                let recovery = r % 2 == 0;
                let o = run::parse(&c.built, &text, &Opts { recovery, budget: budget_for(&c, scanned.len()), ..Default::default() });
                rep.eval();
                if let Some(pm) = &o.panic {
                    if pm.contains("Number of arguments does not match") {
                        rep.violation(json!({"kind": "lr-action-argument-count", "family": family}), "LR parser: number of action arguments differs from the production length (skipped token counted as a child)", json!({"case": case_json(&c), "input": text, "panic": pm}));
                    } else {
                        rep.inconclusive("parser panicked (C19)");
                    }
                    continue;
                }
                if o.clock_exceeded {
                    rep.inconclusive("parser ran away (C19)");
                    continue;
                }
                let wit = |d: &str| json!({"case": case_json(&c), "input": text, "rendering": r, "recovery": recovery, "detail": d});
                // comments: exactly the scanner's comment tokens, in order, once - on success
                if o.ok {
                    let want_c: Vec<(u32, &str)> = scanned.iter().filter(|(t, _)| t.ty == 3 || t.ty == 4).map(|(t, _)| (t.start, t.text.as_str())).collect();
                    let got_c: Vec<(u32, &str)> = o.comments.iter().map(|(_, t)| (t.start, t.text.as_str())).collect();
                    if want_c != got_c {
                        rep.violation(json!({"kind": "comment-callbacks-differ", "lr": c.built.is_lr}), format!("on_comment calls {got_c:?} differ from the input's comments {want_c:?}"), wit(""));
                    }
                    // every skipped token stays in the tree
                    if let Some(root) = &o.tree {
                        let mut leaves = vec![];
                        root.leaves(&mut leaves);
                        let nskip_tree = leaves.iter().filter(|t| t.effective_skip).count();
                        let nskip_scan = scanned.iter().filter(|(t, _)| t.effective_skip).count();
                        if nskip_tree != nskip_scan {
                            rep.violation(json!({"kind": "skipped-token-missing-from-tree", "lr": c.built.is_lr}), format!("{nskip_scan} skipped tokens in the input, {nskip_tree} in the tree"), wit(""));
                        }
                    }
                }
                let mut sh = String::new();
                if let Some(root) = &o.tree {
                    shape(root, &mut sh);
                }
                let acts: Vec<(usize, Vec<String>)> = o
                    .actions
                    .iter()
                    .map(|a| (a.prod, a.children.iter().map(|ch| match ch { Child::T(t) => format!("{}:{}", t.ty, t.text), Child::N(n) => n.clone() }).collect()))
                    .collect();
                match &base {
                    None => base = Some((o.ok, sh, acts)),
                    Some((bok, bsh, bacts)) => {
                        if *bok != o.ok {
                            rep.violation(json!({"kind": "skip-material-changes-acceptance", "lr": c.built.is_lr, "family": family}), format!("two renderings of the same token string differ in acceptance ({} vs {})", bok, o.ok), wit(""));
                        } else if o.ok {
                            if *bacts != acts {
                                let pos = bacts.iter().zip(acts.iter()).position(|(a, b)| a != b).unwrap_or(bacts.len().min(acts.len()));
                                rep.violation(json!({"kind": "skip-material-changes-actions", "lr": c.built.is_lr, "family": family}), format!("semantic actions differ between renderings at call #{pos}: {:?} vs {:?}", bacts.get(pos), acts.get(pos)), wit(""));
                            } else if *bsh != sh {
                                rep.violation(json!({"kind": "skip-material-changes-tree", "lr": c.built.is_lr, "family": family}), "trees differ after deleting skip leaves", wit(&format!("{bsh} vs {sh}")));
                            }
                        }
                    }
                }
                if r > 0 && scanned.iter().filter(|(t, _)| t.effective_skip).count() >= 2 {
                    rep.nontrivial_h(hash_str(&c.par) ^ hash_str(&text));
                    if r == 1 && sidx == 0 {
                        rep.sample(json!({"grammar": c.par, "input": text, "family": family, "ok": o.ok, "comments": o.comments.len()}));
                    }
                }
            }
        }
    });
    let rule = "case = (grammar of one of three families: generated LL/LALR grammar with comments; the same with a %skip-listed noise terminal; a two-state template with %on/%enter and a different skip list per state) x significant token string (sentence or mutant) x 6 (16 thorough) renderings that differ only in skip material (blanks, tabs, line breaks, comments, skip-listed tokens of the current state), recovery alternating; all renderings must agree on Ok/Err, on the action log (production numbers, child kinds and texts) and on the tree with skip leaves deleted; on success on_comment calls must equal the input's comment tokens in order, each once, and every skipped token must be a leaf; non-trivial = rendering with >= 2 skipped tokens; distinct by (grammar, input)";
    let min = if quick { 3000 } else { 40000 };
    finish(ctx, rep, rule, (min as f64 * ctx.scale) as u64, json!({}), t0.elapsed().as_secs_f64())
}
