//! C14 - Tokens and parse trees are lossless.

use super::common::*;
use crate::ev::*;
use crate::inst::GenCfg;
use crate::prng::hash_str;
use crate::run::{self, Opts, Tok};
use crate::wl;
use serde_json::json;
use std::time::Instant;

/// (line, col) of char index i (1-based, '\n' separated lines, columns in chars)
fn positions(input: &str) -> (Vec<(u32, u32)>, Vec<usize>) {
    let mut pos = vec![];
    let mut offs = vec![];
    let (mut line, mut col) = (1u32, 1u32);
    for (b, ch) in input.char_indices() {
        pos.push((line, col));
        offs.push(b);
        if ch == '\n' {
            line += 1;
            col = 1;
        } else {
            col += 1;
        }
    }
    pos.push((line, col));
    offs.push(input.len());
    (pos, offs)
}

/// Returns Err(description) if the token list is not a lossless cover of the input.
pub fn check_tokens(input: &str, toks: &[Tok]) -> Result<(), (String, String)> {
    let (pos, offs) = positions(input);
    let mut at = 0usize;
    for (i, t) in toks.iter().enumerate() {
        if t.start as usize != at {
            return Err(("not-contiguous".into(), format!("token #{i} {:?} starts at {} but the previous token ended at {at}", t.text, t.start)));
        }
        if (t.end as usize) < (t.start as usize) || t.end as usize > input.len() || !input.is_char_boundary(t.start as usize) || !input.is_char_boundary(t.end as usize) {
            return Err(("bad-span".into(), format!("token #{i} has span {}..{} in an input of {} bytes", t.start, t.end, input.len())));
        }
        if &input[t.start as usize..t.end as usize] != t.text {
            return Err(("text-mismatch".into(), format!("token #{i} text {:?} differs from input[{}..{}] = {:?}", t.text, t.start, t.end, &input[t.start as usize..t.end as usize])));
        }
        if t.ty != 65534 {
            // scanned token: line/column must match the text
            let ci = offs.binary_search(&(t.start as usize)).unwrap_or(0);
            let ce = offs.binary_search(&(t.end as usize)).unwrap_or(0);
            if (t.start_line, t.start_col) != pos[ci] || (t.end_line, t.end_col) != pos[ce] {
                return Err(("line-column-mismatch".into(), format!("token #{i} {:?} at bytes {}..{}: reported {}:{}-{}:{}, text says {}:{}-{}:{}", t.text, t.start, t.end, t.start_line, t.start_col, t.end_line, t.end_col, pos[ci].0, pos[ci].1, pos[ce].0, pos[ce].1)));
            }
        }
        at = t.end as usize;
    }
    if at != input.len() {
        return Err(("not-covering".into(), format!("tokens end at byte {at}, input has {} bytes", input.len())));
    }
    Ok(())
}

pub fn run(ctx: &Ctx) -> i32 {
    let t0 = Instant::now();
    let mut profs = wl::ll_profiles();
    profs.extend(wl::lr_profiles());
    let profiles = static_profiles(profs);
    let quick = ctx.quick();
    let n = ctx.n(3000, 60000);
    let rep = run_sharded(ctx, "c14", n, move |rng, i, rep| {
        let p = &profiles[(i as usize) % profiles.len()];
        let mut g = if i % 5 == 0 && p.gtype == crate::gram::GType::LALR { wl::gen_lr_template(rng) } else { wl::gen_grammar(rng, p) };
        wl::decorate_scanner(&mut g, rng);
        let k = draw_k(rng, &g);
        let c = match prepare_grammar(g, p.name, k, &GenCfg::default()) {
            Prep::Ready(c) => c,
            Prep::Rejected(st, _) => {
                rep.count(&format!("grammar_rejected_{st:?}"));
                return;
            }
            Prep::Panicked(_, _) => {
                rep.inconclusive("generator panicked (C26)");
                return;
            }
        };
        let nsent = per_case(if quick { 30 } else { 100 });
        for s in 0..nsent {
            let budget = *rng.pick(&[1usize, 3, 6, 12, 25, 50]);
            let Some(mut w) = wl::random_sentence(&c.bnf, rng, budget) else { continue };
            if w.len() > 80 {
                continue;
            }
            if s % 6 == 5 {
                w = wl::mutate(&w, c.g.terms.len() + 1, rng);
            }
            let text = wl::render_rich(&c.g, &w, rng);
            let toks: Vec<Tok> = match run::scan_all(&c.built, &text, *rng.pick(&[1usize, 2, 4]), s % 3) {
                Ok(t) => t.into_iter().map(|(t, _)| t).collect(),
                Err(e) => {
                    rep.inconclusive(&format!("scan failed: {}", truncate(&e, 50)));
                    continue;
                }
            };
            rep.eval();
            let wit = |d: &str| json!({"case": case_json(&c), "input": text, "detail": d});
            if let Err((kind, d)) = check_tokens(&text, &toks) {
                // classifier for the known scnr2 finding: a position error that shows up after
                // unmatched text (gap token) which itself follows a line break
                let first_gap_after_newline = toks.iter().find(|t| t.ty == 65534 && text[..t.start as usize].contains('\n'));
                let after_gap = kind == "line-column-mismatch" && first_gap_after_newline.is_some();
                rep.violation(json!({"kind": kind, "what": "token-stream", "after_unmatched_text_following_a_line_break": after_gap}), format!("token stream is not lossless: {d}"), wit(&d));
                continue;
            }
            let o = run::parse(&c.built, &text, &Opts { budget: budget_for(&c, toks.len()), ..Default::default() });
            if !o.ok {
                continue;
            }
            let Some(root) = &o.tree else { continue };
            let mut leaves = vec![];
            root.leaves(&mut leaves);
            let a: Vec<(u16, u32, u32, &str)> = leaves.iter().map(|t| (t.ty, t.start, t.end, t.text.as_str())).collect();
            let b: Vec<(u16, u32, u32, &str)> = toks.iter().map(|t| (t.ty, t.start, t.end, t.text.as_str())).collect();
            if a != b {
                let pos = a.iter().zip(b.iter()).position(|(x, y)| x != y).unwrap_or(a.len().min(b.len()));
                let d = format!("leaf #{pos}: tree has {:?}, token stream has {:?} ({} leaves, {} tokens)", a.get(pos), b.get(pos), a.len(), b.len());
                rep.violation(json!({"kind": "tree-leaves-differ-from-tokens", "lr": c.built.is_lr}), format!("parse tree leaves are not the input's tokens: {d}"), wit(&d));
                continue;
            }
            let skips = toks.iter().filter(|t| t.effective_skip).count();
            if skips >= 2 && toks.len() - skips >= 2 {
                rep.nontrivial_h(hash_str(&c.par) ^ hash_str(&text));
                if s == 0 {
                    rep.sample(json!({"grammar": c.par, "input": text, "tokens": toks.len(), "skipped_tokens": skips, "lr": c.built.is_lr}));
                }
            }
        }
    });
    let rule = "case = (accepted LL or LALR grammar, optionally with %line_comment/%block_comment/%allow_unmatched, sentence or mutant) rendered with spaces, tabs, \\n, \\r\\n, lone \\r, non-ASCII whitespace, comments containing non-ASCII text and multi-line bodies, junk when unmatched text is allowed, leading/trailing material; the full token list (significant, skipped, comments, gaps) from the real TokenStream must be contiguous from 0 to len, each text = input[start..end], line/column of scanned tokens as computed from the text; on success the tree leaves must be exactly that list; non-trivial = >= 2 skipped and >= 2 significant tokens; distinct by (grammar, input)";
    let min = if quick { 1500 } else { 20000 };
    finish(ctx, rep, rule, (min as f64 * ctx.scale) as u64, json!({}), t0.elapsed().as_secs_f64())
}
