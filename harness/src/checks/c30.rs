//! C30 - Language-server requests never crash the server.

use super::lspcommon::*;
use crate::ev::*;
use crate::lsp::{LspErr, pos_to_offset_chars};
use crate::partext::*;
use crate::prng::{Rng, hash_str};
use serde_json::{Value, json};
use std::time::Instant;

/// Replace the content of every '..' and ".." literal (outside comments) by a string made only of
/// multi-byte characters (2, 3 and 4 byte wide), one distinct string per distinct content; layout
/// and everything else stay as they are, so the document stays valid and lines end where they did.
pub fn multibyte_literals(text: &str) -> String {
    let cs: Vec<char> = text.chars().collect();
    let alphabet = ['\u{e4}', '\u{20ac}', '\u{1f600}', '\u{df}'];
    let mut seen: Vec<String> = vec![];
    let mut out = String::new();
    let mut i = 0;
    while i < cs.len() {
        let c = cs[i];
        if c == '/' && i + 1 < cs.len() && cs[i + 1] == '/' {
            while i < cs.len() && cs[i] != '\n' {
                out.push(cs[i]);
                i += 1;
            }
        } else if c == '/' && i + 1 < cs.len() && cs[i + 1] == '*' {
            while i < cs.len() && !(cs[i] == '*' && i + 1 < cs.len() && cs[i + 1] == '/') {
                out.push(cs[i]);
                i += 1;
            }
        } else if c == '\'' || c == '"' {
            let mut j = i + 1;
            let mut content = String::new();
            while j < cs.len() && cs[j] != c && cs[j] != '\n' {
                if cs[j] == '\\' && j + 1 < cs.len() {
                    content.push(cs[j]);
                    j += 1;
                }
                content.push(cs[j]);
                j += 1;
            }
            if j < cs.len() && cs[j] == c {
                let key = format!("{c}{content}");
                let idx = seen.iter().position(|x| *x == key).unwrap_or_else(|| {
                    seen.push(key);
                    seen.len() - 1
                });
                let mut n = idx + 1;
                let mut rep = String::new();
                while n > 0 {
                    rep.push(alphabet[n % 4]);
                    n /= 4;
                }
                out.push(c);
                out.push_str(&rep);
                out.push(c);
                i = j + 1;
            } else {
                out.push(c);
                i += 1;
            }
        } else {
            out.push(c);
            i += 1;
        }
    }
    out
}

fn variant(base: &str, rng: &mut Rng, i: u64) -> (String, &'static str) {
    let toks = lex(base);
    match i % 8 {
        0 => (base.to_string(), "valid"),
        1 => {
            let b = if rng.chance(1, 2) { multibyte_literals(base) } else { base.to_string() };
            (sprinkle_comments(&b, rng, 20).replace("comment", "c\u{e9}\u{4e16}\u{1f600}mment"), "valid-multibyte-comments")
        }
        2 => (base.replace('\n', "\r\n"), "crlf"),
        3 => (base.replace('\n', "\r"), "lone-cr"),
        4 => (join(&mutate_tokens(&toks, rng)), "token-mutant"),
        5 => (mutate_bytes(base, rng), "byte-mutant"),
        6 => {
            // huge line + empty document variants
            match rng.below(3) {
                0 => (String::new(), "empty"),
                1 => (format!("{} // {}\n", base.replace('\n', " "), "x".repeat(5000)), "huge-line"),
                _ => (format!("{base}\n\n\n"), "trailing-blank-lines"),
            }
        }
        _ => {
            if rng.chance(1, 4) {
                (base.replace("'", "'\u{e9}").replace("\"", "\"\u{1f600}"), "multibyte-after-quotes")
            } else {
                (multibyte_literals(base), "valid-multibyte-literals")
            }
        }
    }
}

/// collect every {"range": ..} / {"start":..,"end":..} object in a response
fn ranges_in(v: &Value, out: &mut Vec<Value>) {
    match v {
        Value::Object(o) => {
            if o.contains_key("start") && o.contains_key("end") && o["start"].get("line").is_some() {
                out.push(v.clone());
            }
            for x in o.values() {
                ranges_in(x, out);
            }
        }
        Value::Array(a) => {
            for x in a {
                ranges_in(x, out);
            }
        }
        _ => {}
    }
}

pub fn run(ctx: &Ctx) -> i32 {
    let t0 = Instant::now();
    let quick = ctx.quick();
    let n = ctx.n(400, 8000);
    let rep = run_sharded(ctx, "c30", n, move |rng, i, rep| {
        let g = gen_lsp_grammar(rng, i);
        let (text, family) = variant(&g.to_par(), rng, i);
        let uri = format!("file:///c30_{i}.par");
        let lines: Vec<&str> = text.split('\n').collect();
        let nlines = lines.len() as u64;
        // position grid: token starts, inside tokens, past line end, past last line, inside multi-byte
        let mut positions: Vec<(u64, u64)> = vec![(0, 0), (nlines, 0), (nlines + 3, 7), (0, 100000), (u32::MAX as u64, u32::MAX as u64)];
        for (l, c, t) in lex_spans(&text).into_iter() {
            if rng.chance(1, 3) {
                positions.push((l, c));
                positions.push((l, c + t.chars().count() as u64));
            }
        }
        for _ in 0..10 {
            let l = rng.below(nlines as usize + 1) as u64;
            let len = lines.get(l as usize).map(|x| x.chars().count()).unwrap_or(0) as u64;
            positions.push((l, rng.below(len as usize + 3) as u64));
            positions.push((l, len));
            positions.push((l, len + 1));
        }
        rng.shuffle(&mut positions);
        positions.truncate(if quick { 25 } else { 80 });
        let nreq = std::cell::Cell::new(0u64);
        let r = with_session(3, |l| -> Result<Vec<(String, Value, Value)>, (String, String, Value)> {
            l.open(&uri, 1, &text);
            // diagnostics published for this text (echoed back in codeAction requests)
            let mut diags: Vec<Value> = vec![];
            if let Ok(msgs) = l.drain(30, 400) {
                for m in msgs {
                    if m["method"] == "textDocument/publishDiagnostics" {
                        if let Some(a) = m["params"]["diagnostics"].as_array() {
                            diags = a.clone();
                        }
                    }
                }
            }
            let mut out = vec![];
            let mut reqs: Vec<(&str, Value)> = vec![
                ("textDocument/documentSymbol", json!({"textDocument": {"uri": uri}})),
                ("textDocument/formatting", json!({"textDocument": {"uri": uri}, "options": {"tabSize": 4, "insertSpaces": true}})),
                ("textDocument/codeAction", json!({"textDocument": {"uri": uri}, "range": {"start": {"line": 0, "character": 0}, "end": {"line": 0, "character": 0}}, "context": {"diagnostics": diags}})),
            ];
            for (ln, ch) in &positions {
                let pos = json!({"line": ln, "character": ch});
                let tdp = json!({"textDocument": {"uri": uri}, "position": pos});
                reqs.push(("textDocument/hover", tdp.clone()));
                reqs.push(("textDocument/definition", tdp.clone()));
                reqs.push(("textDocument/prepareRename", tdp.clone()));
                reqs.push(("textDocument/rename", json!({"textDocument": {"uri": uri}, "position": pos, "newName": "Zq9x"})));
                // synthetic diagnostics at this position
                let rg = json!({"start": pos, "end": {"line": ln, "character": (ch + 3).min(u32::MAX as u64)}});
                let synth = json!([{"range": rg, "message": "Terminal 'T0' is not available in scanner 'M1'", "severity": 1, "code": "parol::scanner::unknown_token"},
                                   {"range": rg, "message": "skip", "severity": 1, "code": "parol::scanner::invalid_skip"}]);
                reqs.push(("textDocument/codeAction", json!({"textDocument": {"uri": uri}, "range": rg, "context": {"diagnostics": synth}})));
            }
            for (m, p) in reqs {
                nreq.set(nreq.get() + 1);
                match l.request(m, p.clone(), 15000) {
                    Ok(v) => out.push((m.to_string(), p, v)),
                    Err(LspErr::Timeout) => return Err(("TIMEOUT".into(), m.to_string(), p)),
                    Err(LspErr::Exited(info)) => return Err((format!("CRASH {info}"), m.to_string(), p)),
                }
            }
            l.close(&uri);
            let _ = l.drain(1, 30);
            Ok(out)
        });
        rep.evals(nreq.get());
        rep.count(&format!("documents_{family}"));
        match r {
            Err(e) => rep.inconclusive(&format!("no server session: {}", truncate(&e, 60))),
            Ok(Err((e, m, p))) if e == "TIMEOUT" => {
                let _ = (m, p);
                rep.inconclusive("request timed out");
                drop_session();
            }
            Ok(Err((e, m, p))) => {
                // signature: the panic location reported by the server
                let loc = e.split("panicked at ").nth(1).map(|s| s.split(':').take(2).collect::<Vec<_>>().join(":")).unwrap_or_else(|| "unknown".into());
                rep.violation(json!({"kind": "server-crash", "request": m, "location": loc}), format!("language server died during {m}: {}", truncate(&e, 300)), json!({"text": text, "family": family, "request": m, "params": p, "info": e}));
            }
            Ok(Ok(results)) => {
                for (m, p, v) in results {
                    if m == "textDocument/formatting" {
                        continue; // whole-document range (0,0)-(MAX,MAX) by design
                    }
                    let mut rs = vec![];
                    ranges_in(&v, &mut rs);
                    for r in rs {
                        let s = pos_to_offset_chars(&text, r["start"]["line"].as_u64().unwrap_or(0), r["start"]["character"].as_u64().unwrap_or(0));
                        let e = pos_to_offset_chars(&text, r["end"]["line"].as_u64().unwrap_or(0), r["end"]["character"].as_u64().unwrap_or(0));
                        let ok = matches!((s, e), (Some(a), Some(b)) if a <= b);
                        // lone CR texts: the server counts lines by \n only like the harness; CRLF: character counts may include \r
                        if !ok && family != "lone-cr" {
                            rep.violation(json!({"kind": "range-outside-text", "request": m}), format!("{m} answered with a range outside the text: {r}"), json!({"text": text, "family": family, "params": p, "response": v}));
                            break;
                        }
                    }
                }
                rep.nontrivial_h(hash_str(&text));
                if i % 40 == 0 {
                    rep.sample(json!({"family": family, "text_bytes": text.len(), "requests": nreq.get(), "positions": positions.len()}));
                }
            }
        }
    });
    let rule = "case = opened document (valid grammars, with multi-byte characters in comments and literals, CRLF and lone-CR line ends, token-level and byte-level mutants, empty text, a 5000-character line) x 25-80 positions (token starts/ends, past the end of a line, past the last line, (0,100000), (u32::MAX,u32::MAX)) x requests hover, definition, prepareRename, rename, codeAction (with the server's own diagnostics echoed back and with synthetic diagnostics at that position), documentSymbol, formatting, sent to the real parol-ls (debug build: overflow checks and debug assertions on) over stdio; violation = the server process ends (exit code, panic location from its stderr) or a response carries a range outside the text; evaluations = requests sent; distinct by document";
    let min = if quick { 200 } else { 4000 };
    finish(ctx, rep, rule, (min as f64 * ctx.scale) as u64, json!({}), t0.elapsed().as_secs_f64())
}
