//! C32 - The packed k-tuple representation behaves like a sequence.
//! Model: Vec<u16> (EPS = 0xFFFF as single element = epsilon, 0 = end of input which closes the
//! sequence) for Terminals / KTuple, BTreeSet<Vec<u16>> for KTuples.

use crate::ev::*;
use crate::prng::{Rng, hash_bytes};
use crate::run::guarded;
use parol::analysis::compiled_terminal::{CompiledTerminal, EPS};
use parol::analysis::k_tuple::Terminals;
use parol::{KTuple, KTupleBuilder, KTuples, KTuplesBuilder};
use serde_json::json;
use std::collections::BTreeSet;
use std::collections::hash_map::DefaultHasher;
use std::hash::{Hash, Hasher};
use std::time::Instant;

type Seq = Vec<u16>;

fn m_is_eps(s: &Seq) -> bool {
    s.len() == 1 && s[0] == EPS
}
fn m_complete(s: &Seq, k: usize) -> bool {
    !m_is_eps(s) && (s.len() >= k || s.last() == Some(&0))
}
fn m_push(s: &mut Seq, t: u16) {
    if s.len() >= 10 || s.last() == Some(&0) {
        return;
    }
    s.push(t);
}
fn m_kconcat(a: &Seq, b: &Seq, k: usize) -> Seq {
    if m_is_eps(b) || b.is_empty() {
        return a.clone();
    }
    let mut r = if m_is_eps(a) { vec![] } else { a.clone() };
    if m_complete(&r, k) {
        return r;
    }
    let take = (k - r.len().min(k)).min(b.len().min(k));
    r.extend_from_slice(&b[..take]);
    r
}

fn obs(t: &Terminals) -> Seq {
    t.iter().collect()
}

fn hash_of<T: Hash>(x: &T) -> u64 {
    let mut h = DefaultHasher::new();
    x.hash(&mut h);
    h.finish()
}

struct Alpha {
    max: usize,
    vals: Vec<u16>,
}

fn alpha(rng: &mut Rng) -> Alpha {
    // max_terminal_index at the bit-width boundaries 2^b-2, 2^b-1, 2^b for b = 1..12 (<= 4094)
    let b = rng.range(1, 12);
    let max = match rng.below(3) {
        0 => (1usize << b).saturating_sub(2),
        1 => (1usize << b) - 1,
        _ => 1usize << b,
    }
    .clamp(1, 4094);
    let mut vals: Vec<u16> = vec![1, max as u16, (max as u16).saturating_sub(1).max(1), (max as u16 / 2).max(1)];
    for _ in 0..3 {
        vals.push(rng.range(1, max) as u16);
    }
    Alpha { max, vals }
}

fn rand_seq(rng: &mut Rng, a: &Alpha, maxlen: usize) -> Seq {
    let l = rng.range(0, maxlen);
    let mut s: Seq = (0..l).map(|_| *rng.pick(&a.vals)).collect();
    if rng.chance(1, 5) && s.len() < maxlen {
        s.push(0); // end of input closes the sequence
    }
    s
}

/// Build a Terminals for `s` by one of several operation paths.
fn build_terminals(rng: &mut Rng, a: &Alpha, s: &Seq) -> Terminals {
    match rng.below(4) {
        0 => {
            let mut t = Terminals::new(a.max);
            for x in s {
                let _ = t.push(CompiledTerminal(*x));
            }
            t
        }
        1 => {
            let mut t = Terminals::new(a.max);
            t.extend(s.iter().cloned());
            t
        }
        2 => {
            // via k_concat of a split
            let cut = rng.below(s.len() + 1);
            let mut l = Terminals::new(a.max);
            l.extend(s[..cut].iter().cloned());
            let mut r = Terminals::new(a.max);
            r.extend(s[cut..].iter().cloned());
            if cut == 0 && !s.is_empty() {
                // epsilon . w = w
                l = Terminals::eps(a.max);
            }
            l.k_concat(&r, 10)
        }
        _ => {
            // via a longer one truncated with `of`
            let mut t = Terminals::new(a.max);
            t.extend(s.iter().cloned());
            if s.last() != Some(&0) {
                for _ in 0..rng.below(3) {
                    let _ = t.push(CompiledTerminal(*rng.pick(&a.vals)));
                }
            }
            Terminals::of(s.len(), t)
        }
    }
}

fn check_terminals(rng: &mut Rng, rep: &mut Report) {
    let a = alpha(rng);
    let k = rng.range(0, 10);
    let wit = |d: String| json!({"max_terminal_index": a.max, "k": k, "detail": d});
    // random op sequence against the model
    let mut t = match rng.below(3) {
        0 => Terminals::eps(a.max),
        1 => Terminals::end(a.max),
        _ => Terminals::new(a.max),
    };
    let mut m: Seq = obs(&t);
    let mut log = vec![format!("start {m:?}")];
    for _ in 0..rng.range(1, 12) {
        match rng.below(6) {
            0 | 1 => {
                let x = *rng.pick(&a.vals);
                if !m_is_eps(&m) {
                    let _ = t.push(CompiledTerminal(x));
                    m_push(&mut m, x);
                    log.push(format!("push {x}"));
                }
            }
            2 => {
                let other = rand_seq(rng, &a, 5);
                let mut o = Terminals::new(a.max);
                o.extend(other.iter().cloned());
                // precondition of the analysis: operands are not longer than k
                if m.len() <= k || m_is_eps(&m) {
                    let mo: Seq = other.iter().take(10).cloned().collect();
                    let want = m_kconcat(&m, &mo, k);
                    if want.len() <= 10 {
                        t = t.k_concat(&o, k);
                        m = want;
                        log.push(format!("k_concat {mo:?} k={k}"));
                    }
                }
            }
            3 => {
                t.clear();
                m.clear();
                log.push("clear".into());
            }
            4 => {
                let kk = rng.range(0, 10);
                t = Terminals::of(kk, t);
                m.truncate(kk);
                log.push(format!("of {kk}"));
            }
            _ => {
                if !m_is_eps(&m) {
                    let xs: Vec<u16> = (0..rng.below(3)).map(|_| *rng.pick(&a.vals)).collect();
                    t.extend(xs.iter().cloned());
                    for x in &xs {
                        m_push(&mut m, *x);
                    }
                    log.push(format!("extend {xs:?}"));
                }
            }
        }
        rep.eval();
        let got = obs(&t);
        let gets: Seq = (0..t.len()).filter_map(|i| t.get(i).map(|c| c.0)).collect();
        if got != m || gets != m || t.len() != m.len() || t.k_len(k) != m.len().min(k) || t.is_eps() != m_is_eps(&m) || t.is_k_complete(k) != m_complete(&m, k) || t.get(m.len()).is_some() {
            rep.violation(
                json!({"kind": "terminals-vs-sequence-model"}),
                format!("after {log:?}: iter {got:?} get {gets:?} len {} k_len {} is_eps {} is_k_complete({k}) {}; model {m:?} (eps {}, complete {})", t.len(), t.k_len(k), t.is_eps(), t.is_k_complete(k), m_is_eps(&m), m_complete(&m, k)),
                wit(format!("{log:?}")),
            );
            return;
        }
    }
    // equality / hash / order are functions of the denoted sequence
    let s1 = rand_seq(rng, &a, 8);
    let s2 = if rng.chance(1, 2) { s1.clone() } else { rand_seq(rng, &a, 8) };
    let s3 = rand_seq(rng, &a, 8);
    let (t1, t1b, t2, t3) = (build_terminals(rng, &a, &s1), build_terminals(rng, &a, &s1), build_terminals(rng, &a, &s2), build_terminals(rng, &a, &s3));
    rep.eval();
    if obs(&t1) != s1 || obs(&t1b) != s1 || obs(&t2) != s2 || obs(&t3) != s3 {
        rep.violation(json!({"kind": "terminals-construction-path"}), format!("construction paths of {s1:?}/{s2:?}/{s3:?} denote {:?}/{:?}/{:?}/{:?}", obs(&t1), obs(&t1b), obs(&t2), obs(&t3)), wit(String::new()));
        return;
    }
    if t1 != t1b || hash_of(&t1) != hash_of(&t1b) || t1.cmp(&t1b) != std::cmp::Ordering::Equal {
        rep.violation(json!({"kind": "terminals-equality-not-a-function-of-the-sequence"}), format!("two Terminals denoting {s1:?} built by different operation paths are not equal / hash or order differently: {t1:?} vs {t1b:?}"), wit(String::new()));
    }
    if (t1 == t2) != (s1 == s2) || (t1.cmp(&t2) == std::cmp::Ordering::Equal) != (s1 == s2) {
        rep.violation(json!({"kind": "terminals-eq-vs-sequence"}), format!("== / cmp of Terminals {s1:?} and {s2:?} disagree with sequence equality"), wit(String::new()));
    }
    // strict total order: antisymmetry and transitivity on the triple, consistent with the twin
    let (c12, c21, c23, c13) = (t1.cmp(&t2), t2.cmp(&t1), t2.cmp(&t3), t1.cmp(&t3));
    if c12 != c21.reverse() || (c12 == c23 && c12 != std::cmp::Ordering::Equal && c13 != c12) || t1b.cmp(&t3) != c13 {
        rep.violation(json!({"kind": "terminals-order-not-total"}), format!("Ord on {s1:?}, {s2:?}, {s3:?}: {c12:?} {c21:?} {c23:?} {c13:?}"), wit(String::new()));
    }
    let mut key = vec![a.max as u8, (a.max >> 8) as u8];
    for x in s1.iter().chain(s3.iter()) {
        key.extend(x.to_le_bytes());
    }
    if s1.len() >= 2 {
        rep.nontrivial_h(hash_bytes(&key));
    }
}

fn build_ktuple(rng: &mut Rng, a: &Alpha, s: &Seq, k: usize) -> KTuple {
    match rng.below(5) {
        0 => KTuple::from_slice(&s.iter().map(|x| CompiledTerminal(*x)).collect::<Vec<_>>(), k, a.max),
        1 => KTupleBuilder::new().k(k).max_terminal_index(a.max).terminal_string(s).build().unwrap(),
        2 => {
            let mut t = Terminals::new(a.max);
            t.extend(s.iter().cloned());
            KTuple::of(t, k)
        }
        3 => {
            let mut kt = KTupleBuilder::new().k(k).max_terminal_index(a.max).terminal_string(&[]).build().unwrap();
            for x in s.iter().take(k) {
                let _ = kt.push(CompiledTerminal(*x));
            }
            kt
        }
        _ => {
            let base = KTuple::from_slice(&s.iter().map(|x| CompiledTerminal(*x)).collect::<Vec<_>>(), 10, a.max);
            KTupleBuilder::new().k(k).max_terminal_index(a.max).k_tuple(&base).build().unwrap()
        }
    }
}

fn check_ktuple(rng: &mut Rng, rep: &mut Report) {
    let a = alpha(rng);
    let k = rng.range(0, 10);
    let s = rand_seq(rng, &a, 10);
    let want: Seq = {
        let mut v = vec![];
        for x in s.iter().take(k) {
            m_push(&mut v, *x);
        }
        v
    };
    let wit = |d: String| json!({"max_terminal_index": a.max, "k": k, "sequence": s, "detail": d});
    let (x, y) = (build_ktuple(rng, &a, &s, k), build_ktuple(rng, &a, &s, k));
    rep.eval();
    for (name, kt) in [("first", &x), ("second", &y)] {
        let got = obs(kt.terminals());
        if got != want || kt.len() != want.len() || kt.is_eps() || kt.is_k_complete() != m_complete(&want, k) || kt.k() != k.min(10) {
            rep.violation(json!({"kind": "ktuple-vs-sequence-model"}), format!("{name} KTuple of {s:?} at k={k}: iter {got:?} len {} is_k_complete {} k() {}; model {want:?} complete {}", kt.len(), kt.is_k_complete(), kt.k(), m_complete(&want, k)), wit(String::new()));
            return;
        }
    }
    if x != y || hash_of(&x) != hash_of(&y) || x.cmp(&y) != std::cmp::Ordering::Equal {
        rep.violation(json!({"kind": "ktuple-equality-not-a-function-of-the-sequence"}), format!("two KTuples denoting {want:?} (k={k}) built by different paths differ: {x:?} vs {y:?}"), wit(String::new()));
    }
    // k_concat and set_k against the model
    let s2 = rand_seq(rng, &a, 10);
    let o = build_ktuple(rng, &a, &s2, k);
    let want2: Seq = {
        let mut v = vec![];
        for t in s2.iter().take(k) {
            m_push(&mut v, *t);
        }
        v
    };
    let r = x.k_concat(&o, k);
    let model = m_kconcat(&want, &want2, k);
    rep.eval();
    if obs(r.terminals()) != model || r.is_k_complete() != m_complete(&model, k) {
        rep.violation(json!({"kind": "ktuple-k-concat"}), format!("{want:?} k_concat {want2:?} at k={k}: got {:?} complete {}, model {model:?} complete {}", obs(r.terminals()), r.is_k_complete(), m_complete(&model, k)), wit(String::new()));
    }
    // epsilon and end
    let e = KTupleBuilder::new().k(k).max_terminal_index(a.max).eps().unwrap();
    let r2 = e.k_concat(&o, k);
    let model2 = m_kconcat(&vec![EPS], &want2, k);
    if !e.is_eps() || obs(e.terminals()) != vec![EPS] || obs(r2.terminals()) != model2 {
        rep.violation(json!({"kind": "ktuple-epsilon"}), format!("eps k_concat {want2:?} at k={k}: got {:?}, model {model2:?}", obs(r2.terminals())), wit(String::new()));
    }
    let kk = rng.range(0, 10);
    let r3 = x.set_k(kk);
    if obs(r3.terminals()) != want || r3.is_k_complete() != m_complete(&want, kk) || r3.k() != kk {
        rep.violation(json!({"kind": "ktuple-set-k"}), format!("set_k({kk}) on {want:?}: complete {} k() {}, model complete {}", r3.is_k_complete(), r3.k(), m_complete(&want, kk)), wit(String::new()));
    }
    if want.len() >= 2 {
        let mut key = vec![1u8, a.max as u8, k as u8];
        for t in want.iter().chain(want2.iter()) {
            key.extend(t.to_le_bytes());
        }
        rep.nontrivial_h(hash_bytes(&key));
        if rep.samples.len() < 2 {
            rep.sample(json!({"max_terminal_index": a.max, "k": k, "sequence": want, "other": want2, "k_concat": model}));
        }
    }
}

fn check_ktuples(rng: &mut Rng, rep: &mut Report) {
    let a = alpha(rng);
    let k = rng.range(1, 6);
    let mk = |rng: &mut Rng, n: usize| -> (KTuples, BTreeSet<Seq>) {
        let mut model = BTreeSet::new();
        let mut seqs: Vec<Seq> = vec![];
        for _ in 0..n {
            let s = rand_seq(rng, &a, k);
            let mut v = vec![];
            for x in s.iter().take(k) {
                m_push(&mut v, *x);
            }
            model.insert(v);
            seqs.push(s);
        }
        let kt = if rng.chance(1, 2) {
            let refs: Vec<&[u16]> = seqs.iter().map(|s| s.as_slice()).collect();
            KTuplesBuilder::new().k(k).max_terminal_index(a.max).terminal_indices(&refs).build().unwrap()
        } else {
            let mut kt = KTuplesBuilder::new().k(k).max_terminal_index(a.max).build().unwrap();
            for s in &seqs {
                let t = build_ktuple(rng, &a, s, k);
                kt.insert(t);
            }
            kt
        };
        (kt, model)
    };
    let content = |kt: &KTuples| -> BTreeSet<Seq> { kt.sorted().iter().map(|t| obs(t.terminals()).into_iter().filter(|x| *x != EPS).collect()).collect() };
    let na = rng.range(0, 5);
    let nb = rng.range(0, 5);
    let (ka, ma) = mk(rng, na);
    let (kb, mb) = mk(rng, nb);
    let wit = |d: String| json!({"max_terminal_index": a.max, "k": k, "a": ma, "b": mb, "detail": d});
    rep.eval();
    if content(&ka) != ma || ka.len() != ma.len() {
        rep.violation(json!({"kind": "ktuples-content"}), format!("KTuples built from {ma:?} contains {:?} (len {})", content(&ka), ka.len()), wit(String::new()));
        return;
    }
    let disj = ma.is_disjoint(&mb);
    if ka.is_disjoint(&kb) != disj {
        rep.violation(json!({"kind": "ktuples-is-disjoint"}), format!("is_disjoint = {}, the denoted sets are {}disjoint", ka.is_disjoint(&kb), if disj { "" } else { "not " }), wit(String::new()));
    }
    let inter: BTreeSet<Seq> = ma.intersection(&mb).cloned().collect();
    let gi = ka.intersection(&kb);
    if content(&gi) != inter || gi.len() != inter.len() {
        rep.violation(json!({"kind": "ktuples-intersection"}), format!("intersection {:?}, model {inter:?}", content(&gi)), wit(String::new()));
    }
    let uni: BTreeSet<Seq> = ma.union(&mb).cloned().collect();
    let (gu, changed) = ka.union(&kb);
    if content(&gu) != uni || gu.len() != uni.len() || changed != (uni.len() != ma.len()) {
        rep.violation(json!({"kind": "ktuples-union"}), format!("union {:?} (len {}, changed {changed}), model {uni:?}", content(&gu), gu.len()), wit(String::new()));
    }
    // k_concat: every incomplete tuple of a is extended by every tuple of b
    let mut mc: BTreeSet<Seq> = BTreeSet::new();
    for x in &ma {
        if m_complete(x, k) {
            mc.insert(x.clone());
        } else {
            for y in &mb {
                mc.insert(m_kconcat(x, y, k));
            }
        }
    }
    let gc = ka.clone().k_concat(&kb, k);
    rep.eval();
    if content(&gc) != mc || gc.len() != mc.len() {
        rep.violation(json!({"kind": "ktuples-k-concat"}), format!("k_concat at k={k}: {:?} (len {}), model {mc:?}", content(&gc), gc.len()), wit(String::new()));
    }
    // a concatenation result must still behave like the same set when compared with a set built directly
    let refs: Vec<&[u16]> = mc.iter().map(|s| s.as_slice()).collect();
    let direct = KTuplesBuilder::new().k(k).max_terminal_index(a.max).terminal_indices(&refs).build().unwrap();
    if !mc.is_empty() && (gc.is_disjoint(&direct) || content(&gc.intersection(&direct)) != mc) {
        rep.violation(json!({"kind": "ktuples-equal-sequences-not-identified"}), format!("the k_concat result {mc:?} and the same set built directly are treated as different tuples (is_disjoint {}, intersection {:?})", gc.is_disjoint(&direct), content(&gc.intersection(&direct))), wit(String::new()));
    }
    if ma.len() + mb.len() >= 3 {
        let mut key = vec![2u8, a.max as u8, k as u8];
        for s in ma.iter().chain(mb.iter()) {
            for t in s {
                key.extend(t.to_le_bytes());
            }
            key.push(254);
        }
        rep.nontrivial_h(hash_bytes(&key));
        if rep.samples.len() < 3 {
            rep.sample(json!({"max_terminal_index": a.max, "k": k, "a": ma, "b": mb, "k_concat": mc}));
        }
    }
}

pub fn run(ctx: &Ctx) -> i32 {
    let t0 = Instant::now();
    let n = ctx.n(150_000, 6_000_000);
    let rep = run_sharded(ctx, "c32", n, move |rng, i, rep| {
        let r = guarded(|| {
            let mut local = Report::new();
            match i % 3 {
                0 => check_terminals(rng, &mut local),
                1 => check_ktuple(rng, &mut local),
                _ => check_ktuples(rng, &mut local),
            }
            local
        });
        match r {
            Ok(local) => rep.merge(local),
            Err(pm) => {
                rep.eval();
                rep.violation(json!({"kind": "panic", "location": super::common::panic_location(&pm)}), format!("k-tuple operation panicked: {}", truncate(&pm, 300)), json!({"case_index": i, "panic": pm}));
            }
        }
    });
    let rule = "case = random operation sequence on the public API at max_terminal_index in {2^b-2, 2^b-1, 2^b} for b = 1..12 and k = 0..10 with terminal values at 1, max, max-1, max/2 and random: (1) Terminals (new/eps/end/push/extend/k_concat/of/clear/get/iter/len/k_len/is_k_complete/is_eps) against a Vec<u16> model after every step, ==/Hash/Ord of values denoting the same sequence built by four different operation paths, antisymmetry/transitivity of Ord; (2) KTuple built by five paths (from_slice, builder, of, push, builder from tuple): iteration, len, completeness, k, equality across paths, k_concat, eps, set_k; (3) KTuples (builder, insert, union, intersection, is_disjoint, k_concat, len, sorted) against BTreeSet<Vec<u16>>; non-trivial = sequences of length >= 2 / sets with >= 3 tuples; distinct by operands";
    let min = if ctx.quick() { 20000 } else { 500000 };
    finish(ctx, rep, rule, (min as f64 * ctx.scale) as u64, json!({}), t0.elapsed().as_secs_f64())
}
