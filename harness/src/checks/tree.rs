//! Derivation-tree validation shared by C02/C03/C14/C17.

use super::common::Case;
use crate::run::{ActionEvent, Child, Node, Tok};
use serde_json::Value;

#[derive(Debug, Clone, PartialEq, Eq)]
pub enum PSym {
    T(u16),
    N(usize),
}

pub struct Prods {
    pub nts: Vec<String>,
    pub start: usize,
    /// (lhs, rhs)
    pub prods: Vec<(usize, Vec<PSym>)>,
}

pub fn prods_from_model(model: &Value) -> Option<Prods> {
    let nts: Vec<String> = model["non_terminal_names"]
        .as_array()?
        .iter()
        .map(|v| v.as_str().unwrap_or("").to_string())
        .collect();
    let start = model["start_symbol_index"].as_u64()? as usize;
    let mut prods = vec![];
    for p in model["productions"].as_array()? {
        let lhs = p["lhs_index"].as_u64()? as usize;
        let mut rhs = vec![];
        for s in p["rhs"].as_array()? {
            if let Some(n) = s.get("NonTerminal") {
                rhs.push(PSym::N(n.as_u64()? as usize));
            } else if let Some(t) = s.get("Terminal") {
                rhs.push(PSym::T(t["index"].as_u64()? as u16));
            } else {
                return None;
            }
        }
        prods.push((lhs, rhs));
    }
    Some(Prods { nts, start, prods })
}

#[derive(Debug, Clone, PartialEq, Eq)]
pub struct App {
    pub prod: usize,
    /// significant children: tokens (type, start offset) or non-terminal names
    pub children: Vec<Child>,
    pub depth: usize,
}

pub struct TreeInfo {
    /// production applications in post-order
    pub post: Vec<App>,
    pub depth: usize,
    pub eps_apps: usize,
    pub leaves_all: Vec<Tok>,
}

/// Validates that `root` is a derivation tree w.r.t. `pr`. Skip leaves (effective) are ignored
/// for production matching. Returns the post-order list of production applications.
pub fn validate(pr: &Prods, root: &Node) -> Result<TreeInfo, String> {
    let (name, top) = match root {
        Node::Inner(n, ch) => (n, ch),
        Node::Leaf(_) => return Err("root is a leaf".into()),
    };
    if !name.is_empty() {
        return Err(format!("root node is named {name:?}, expected \"\""));
    }
    let inner: Vec<&Node> = top
        .iter()
        .filter(|c| match c {
            Node::Leaf(t) => !t.effective_skip,
            _ => true,
        })
        .collect();
    if inner.len() != 1 {
        return Err(format!(
            "root holds {} significant children, expected exactly the start symbol",
            inner.len()
        ));
    }
    match inner[0] {
        Node::Inner(n, _) if *n == pr.nts[pr.start] => {}
        Node::Inner(n, _) => {
            return Err(format!(
                "root child is {n:?}, expected start symbol {:?}",
                pr.nts[pr.start]
            ));
        }
        Node::Leaf(t) => return Err(format!("root child is a token {:?}", t.text)),
    }
    let mut info = TreeInfo {
        post: vec![],
        depth: 0,
        eps_apps: 0,
        leaves_all: vec![],
    };
    // iterative post-order
    enum Work<'a> {
        Enter(&'a Node, usize),
        Exit(&'a Node, usize),
    }
    let mut stack = vec![Work::Enter(inner[0], 1)];
    while let Some(w) = stack.pop() {
        match w {
            Work::Enter(n, d) => {
                if let Node::Inner(_, ch) = n {
                    info.depth = info.depth.max(d);
                    stack.push(Work::Exit(n, d));
                    for c in ch.iter().rev() {
                        if matches!(c, Node::Inner(..)) {
                            stack.push(Work::Enter(c, d + 1));
                        }
                    }
                }
            }
            Work::Exit(n, d) => {
                if let Node::Inner(name, ch) = n {
                    let Some(lhs) = pr.nts.iter().position(|x| x == name) else {
                        return Err(format!("tree node {name:?} is not a non-terminal"));
                    };
                    let sig: Vec<&Node> = ch
                        .iter()
                        .filter(|c| match c {
                            Node::Leaf(t) => !t.effective_skip,
                            _ => true,
                        })
                        .collect();
                    let matches_prod = |rhs: &Vec<PSym>| -> bool {
                        rhs.len() == sig.len()
                            && rhs.iter().zip(sig.iter()).all(|(s, c)| match (s, c) {
                                (PSym::T(t), Node::Leaf(tok)) => tok.ty == *t,
                                (PSym::N(i), Node::Inner(nm, _)) => pr.nts[*i] == *nm,
                                _ => false,
                            })
                    };
                    let cands: Vec<usize> = pr
                        .prods
                        .iter()
                        .enumerate()
                        .filter(|(_, (l, r))| *l == lhs && matches_prod(r))
                        .map(|(i, _)| i)
                        .collect();
                    if cands.is_empty() {
                        let shape: Vec<String> = sig
                            .iter()
                            .map(|c| match c {
                                Node::Leaf(t) => format!("T{}({:?})", t.ty, t.text),
                                Node::Inner(n, _) => n.clone(),
                            })
                            .collect();
                        return Err(format!(
                            "node {name:?} with children [{}] matches no production of {name}",
                            shape.join(" ")
                        ));
                    }
                    if sig.is_empty() {
                        info.eps_apps += 1;
                    }
                    info.post.push(App {
                        prod: cands[0],
                        children: sig
                            .iter()
                            .map(|c| match c {
                                Node::Leaf(t) => Child::T((*t).clone()),
                                Node::Inner(n, _) => Child::N(n.clone()),
                            })
                            .collect(),
                        depth: d,
                    });
                }
            }
        }
    }
    let mut lv = vec![];
    root.leaves(&mut lv);
    info.leaves_all = lv.into_iter().cloned().collect();
    Ok(info)
}

/// Compare the action log with the post-order application list.
pub fn compare_actions(info: &TreeInfo, actions: &[ActionEvent]) -> Result<(), String> {
    if info.post.len() != actions.len() {
        return Err(format!(
            "{} semantic action calls for {} production applications in the tree",
            actions.len(),
            info.post.len()
        ));
    }
    for (i, (app, act)) in info.post.iter().zip(actions.iter()).enumerate() {
        if app.prod != act.prod {
            return Err(format!(
                "action #{i}: called for production {}, tree post-order has production {}",
                act.prod, app.prod
            ));
        }
        if app.children.len() != act.children.len() {
            return Err(format!(
                "action #{i} (production {}): received {} children, application has {}",
                act.prod,
                act.children.len(),
                app.children.len()
            ));
        }
        for (a, b) in app.children.iter().zip(act.children.iter()) {
            let same = match (a, b) {
                (Child::T(x), Child::T(y)) => x.ty == y.ty && x.start == y.start && x.text == y.text,
                (Child::N(x), Child::N(y)) => x == y,
                _ => false,
            };
            if !same {
                return Err(format!(
                    "action #{i} (production {}): child mismatch: tree {a:?} vs action {b:?}",
                    act.prod
                ));
            }
        }
    }
    Ok(())
}

/// Leaves (significant) must equal the scanner's significant tokens.
pub fn compare_yield(info: &TreeInfo, scanned: &[(Tok, usize)]) -> Result<(), String> {
    let a: Vec<(u16, u32, &str)> = info
        .leaves_all
        .iter()
        .filter(|t| !t.effective_skip)
        .map(|t| (t.ty, t.start, t.text.as_str()))
        .collect();
    let b: Vec<(u16, u32, &str)> = scanned
        .iter()
        .filter(|(t, _)| !t.effective_skip)
        .map(|(t, _)| (t.ty, t.start, t.text.as_str()))
        .collect();
    if a != b {
        return Err(format!(
            "tree yield {:?} differs from the input's significant tokens {:?}",
            a, b
        ));
    }
    Ok(())
}

pub fn prods_of_case(c: &Case) -> Option<Prods> {
    prods_from_model(&c.built.model)
}
