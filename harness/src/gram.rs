//! Grammar AST kept by the harness (the oracle never parses PAR text), PAR rendering,
//! independent desugaring to BNF for the oracles.

use std::collections::BTreeMap;
use std::fmt::Write;

#[derive(Clone, Copy, PartialEq, Eq, Hash, Debug, PartialOrd, Ord)]
pub enum Quote {
    Raw,    // '..'
    Legacy, // ".."
    Regex,  // /../
}

impl Quote {
    pub fn delim(&self) -> char {
        match self {
            Quote::Raw => '\'',
            Quote::Legacy => '"',
            Quote::Regex => '/',
        }
    }
    /// raw vs regex class: parol treats Legacy and Regex alike
    pub fn is_raw(&self) -> bool {
        matches!(self, Quote::Raw)
    }
}

/// Independent re-implementation of "raw string -> regex" (escape every regex meta character).
pub fn escape_raw(text: &str) -> String {
    let mut s = String::new();
    for c in text.chars() {
        if matches!(
            c,
            '\\' | '.' | '+' | '*' | '?' | '(' | ')' | '|' | '[' | ']' | '{' | '}' | '^' | '$'
                | '#' | '&' | '-' | '~'
        ) {
            s.push('\\');
        }
        s.push(c);
    }
    s
}

#[derive(Clone, Debug, PartialEq, Eq)]
pub struct Lookahead {
    pub positive: bool,
    pub text: String,
    pub quote: Quote,
}

#[derive(Clone, Debug)]
pub struct TermDef {
    /// text between the delimiters, as written in PAR
    pub text: String,
    pub quote: Quote,
    pub la: Option<Lookahead>,
    /// lexemes this terminal matches (first = canonical); used to render sentences
    pub samples: Vec<String>,
    /// scanner states (indices into Grammar.states); empty = only INITIAL
    pub states: Vec<usize>,
}

impl TermDef {
    pub fn raw(text: &str) -> Self {
        TermDef {
            text: text.to_string(),
            quote: Quote::Raw,
            la: None,
            samples: vec![text.to_string()],
            states: vec![],
        }
    }
    pub fn regex_string(&self) -> String {
        match self.quote {
            Quote::Raw => escape_raw(&self.text),
            _ => self.text.clone(),
        }
    }
    pub fn la_regex_string(&self) -> Option<(bool, String)> {
        self.la.as_ref().map(|l| {
            (
                l.positive,
                match l.quote {
                    Quote::Raw => escape_raw(&l.text),
                    _ => l.text.clone(),
                },
            )
        })
    }
    /// identity the way parol documents it: text + raw/regex class + lookahead
    pub fn identity(&self) -> (String, bool, Option<(bool, String, bool)>) {
        (
            self.text.clone(),
            self.quote.is_raw(),
            self.la
                .as_ref()
                .map(|l| (l.positive, l.text.clone(), l.quote.is_raw())),
        )
    }
}

#[derive(Clone, Debug, Default, PartialEq, Eq)]
pub struct AstCtl {
    pub clip: bool,
    pub member: Option<String>,
    pub utype: Option<String>,
}

#[derive(Clone, Debug)]
pub enum Factor {
    T(usize, AstCtl),
    N(String, AstCtl),
    Grp(Alts),
    Opt(Alts),
    Rep(Alts),
}

pub type Alts = Vec<Vec<Factor>>;

#[derive(Clone, Debug)]
pub struct Rule {
    pub name: String,
    pub alts: Alts,
}

#[derive(Clone, Debug, PartialEq, Eq)]
pub enum Trans {
    Enter(String),
    Push(String),
    Pop,
}

#[derive(Clone, Debug)]
pub struct ScannerState {
    pub name: String,
    pub line_comments: Vec<(String, Quote)>,
    pub block_comments: Vec<((String, Quote), (String, Quote))>,
    pub auto_nl: bool,
    pub auto_ws: bool,
    pub allow_unmatched: bool,
    /// names of primary non-terminals
    pub skip: Vec<String>,
    pub on: Vec<(Vec<String>, Trans)>,
}

impl ScannerState {
    pub fn new(name: &str) -> Self {
        ScannerState {
            name: name.to_string(),
            line_comments: vec![],
            block_comments: vec![],
            auto_nl: true,
            auto_ws: true,
            allow_unmatched: false,
            skip: vec![],
            on: vec![],
        }
    }
}

#[derive(Clone, Copy, Debug, PartialEq, Eq)]
pub enum GType {
    LL,
    LALR,
}

#[derive(Clone, Debug)]
pub struct Grammar {
    pub start: String,
    pub title: Option<String>,
    pub comment: Option<String>,
    pub gtype: GType,
    /// explicit %grammar_type line even for LL
    pub explicit_type: bool,
    pub states: Vec<ScannerState>,
    pub rules: Vec<Rule>,
    pub terms: Vec<TermDef>,
    pub t_type: Option<String>,
    pub nt_types: Vec<(String, String)>,
    pub user_types: Vec<(String, String)>,
}

impl Grammar {
    pub fn new(start: &str, gtype: GType) -> Self {
        Grammar {
            start: start.to_string(),
            title: None,
            comment: None,
            gtype,
            explicit_type: false,
            states: vec![ScannerState::new("INITIAL")],
            rules: vec![],
            terms: vec![],
            t_type: None,
            nt_types: vec![],
            user_types: vec![],
        }
    }

    /// Terminals with the same identity (text, raw/regex class, lookahead) are one terminal for
    /// parol; the oracle uses the first such TermDef as the canonical id.
    pub fn canon_term(&self, t: usize) -> usize {
        let id = self.terms[t].identity();
        self.terms.iter().position(|x| x.identity() == id).unwrap_or(t)
    }

    pub fn nt_names(&self) -> Vec<String> {
        let mut v: Vec<String> = vec![];
        for r in &self.rules {
            if !v.contains(&r.name) {
                v.push(r.name.clone());
            }
        }
        v
    }

    fn render_lit(text: &str, q: Quote) -> String {
        let d = q.delim();
        format!("{d}{text}{d}")
    }

    /// comment delimiters are stored as literal text: regex-escape them unless raw-quoted
    fn render_delim(text: &str, q: Quote) -> String {
        match q {
            Quote::Raw => Self::render_lit(text, q),
            Quote::Regex => Self::render_lit(&escape_raw(text).replace('/', "\\/"), q),
            _ => Self::render_lit(&escape_raw(text), q),
        }
    }

    fn render_scanner_directives(&self, st: &ScannerState, indent: &str, out: &mut String) {
        for (t, q) in &st.line_comments {
            let _ = writeln!(out, "{indent}%line_comment {}", Self::render_delim(t, *q));
        }
        for ((s, sq), (e, eq)) in &st.block_comments {
            let _ = writeln!(
                out,
                "{indent}%block_comment {} {}",
                Self::render_delim(s, *sq),
                Self::render_delim(e, *eq)
            );
        }
        if !st.auto_nl {
            let _ = writeln!(out, "{indent}%auto_newline_off");
        }
        if !st.auto_ws {
            let _ = writeln!(out, "{indent}%auto_ws_off");
        }
        if st.allow_unmatched {
            let _ = writeln!(out, "{indent}%allow_unmatched");
        }
        if !st.skip.is_empty() {
            let _ = writeln!(out, "{indent}%skip {}", st.skip.join(", "));
        }
        for (ids, tr) in &st.on {
            let t = match tr {
                Trans::Enter(n) => format!("%enter {n}"),
                Trans::Push(n) => format!("%push {n}"),
                Trans::Pop => "%pop".to_string(),
            };
            let _ = writeln!(out, "{indent}%on {} {}", ids.join(", "), t);
        }
    }

    fn render_ctl(c: &AstCtl, out: &mut String) {
        if c.clip {
            out.push('^');
        } else {
            if let Some(m) = &c.member {
                let _ = write!(out, "@{m}");
            }
            if let Some(u) = &c.utype {
                let _ = write!(out, " : {u}");
            }
        }
    }

    pub fn render_term_occurrence(&self, t: usize, c: &AstCtl, out: &mut String) {
        let td = &self.terms[t];
        if !td.states.is_empty() && td.states != vec![0] {
            let names: Vec<&str> = td
                .states
                .iter()
                .map(|s| self.states[*s].name.as_str())
                .collect();
            let _ = write!(out, "<{}>", names.join(", "));
        }
        out.push_str(&Self::render_lit(&td.text, td.quote));
        if let Some(la) = &td.la {
            let _ = write!(
                out,
                " {} {}",
                if la.positive { "?=" } else { "?!" },
                Self::render_lit(&la.text, la.quote)
            );
        }
        Self::render_ctl(c, out);
    }

    fn render_alts(&self, alts: &Alts, out: &mut String) {
        for (i, alt) in alts.iter().enumerate() {
            if i > 0 {
                out.push_str(" | ");
            }
            for (j, f) in alt.iter().enumerate() {
                if j > 0 {
                    out.push(' ');
                }
                match f {
                    Factor::T(t, c) => self.render_term_occurrence(*t, c, out),
                    Factor::N(n, c) => {
                        out.push_str(n);
                        Self::render_ctl(c, out);
                    }
                    Factor::Grp(a) => {
                        out.push_str("( ");
                        self.render_alts(a, out);
                        out.push_str(" )");
                    }
                    Factor::Opt(a) => {
                        out.push_str("[ ");
                        self.render_alts(a, out);
                        out.push_str(" ]");
                    }
                    Factor::Rep(a) => {
                        out.push_str("{ ");
                        self.render_alts(a, out);
                        out.push_str(" }");
                    }
                }
            }
        }
    }

    /// Render as PAR text.
    pub fn to_par(&self) -> String {
        let mut out = String::new();
        let _ = writeln!(out, "%start {}", self.start);
        if let Some(t) = &self.title {
            let _ = writeln!(out, "%title \"{t}\"");
        }
        if let Some(t) = &self.comment {
            let _ = writeln!(out, "%comment \"{t}\"");
        }
        match (self.gtype, self.explicit_type) {
            (GType::LALR, _) => {
                let _ = writeln!(out, "%grammar_type 'lalr(1)'");
            }
            (GType::LL, true) => {
                let _ = writeln!(out, "%grammar_type 'll(k)'");
            }
            _ => {}
        }
        for (a, t) in &self.user_types {
            let _ = writeln!(out, "%user_type {a} = {t}");
        }
        for (a, t) in &self.nt_types {
            let _ = writeln!(out, "%nt_type {a} = {t}");
        }
        if let Some(t) = &self.t_type {
            let _ = writeln!(out, "%t_type {t}");
        }
        self.render_scanner_directives(&self.states[0], "", &mut out);
        for st in self.states.iter().skip(1) {
            let _ = writeln!(out, "%scanner {} {{", st.name);
            self.render_scanner_directives(st, "    ", &mut out);
            let _ = writeln!(out, "}}");
        }
        out.push_str("\n%%\n\n");
        for r in &self.rules {
            let _ = write!(out, "{}: ", r.name);
            self.render_alts(&r.alts, &mut out);
            out.push_str(";\n");
        }
        out
    }

    /// Independent desugaring to BNF (fresh helper names that cannot clash: they contain '#').
    pub fn to_bnf(&self) -> Bnf {
        let mut b = Bnf {
            nts: vec![],
            start: 0,
            prods: vec![],
            nterm: self.terms.len(),
            user_nts: 0,
        };
        let mut idx: BTreeMap<String, usize> = BTreeMap::new();
        for n in self.nt_names() {
            idx.insert(n.clone(), b.nts.len());
            b.nts.push(n);
        }
        b.user_nts = b.nts.len();
        // undefined non-terminals referenced get an index with no productions
        fn collect_refs(alts: &Alts, f: &mut dyn FnMut(&str)) {
            for alt in alts {
                for fa in alt {
                    match fa {
                        Factor::N(n, _) => f(n),
                        Factor::Grp(a) | Factor::Opt(a) | Factor::Rep(a) => collect_refs(a, f),
                        _ => {}
                    }
                }
            }
        }
        let mut undefined: Vec<String> = vec![];
        for r in &self.rules {
            collect_refs(&r.alts, &mut |n| {
                if !idx.contains_key(n) && !undefined.contains(&n.to_string()) {
                    undefined.push(n.to_string());
                }
            });
        }
        if !idx.contains_key(&self.start) && !undefined.contains(&self.start) {
            undefined.push(self.start.clone());
        }
        for n in undefined {
            idx.insert(n.clone(), b.nts.len());
            b.nts.push(n);
        }
        b.user_nts = b.nts.len();
        b.start = idx[&self.start];
        for r in &self.rules {
            let lhs = idx[&r.name];
            self.desugar_alts(&mut b, &idx, lhs, &r.alts);
        }
        b
    }

    fn desugar_alts(&self, b: &mut Bnf, idx: &BTreeMap<String, usize>, lhs: usize, alts: &Alts) {
        for alt in alts {
            let mut rhs = vec![];
            for f in alt {
                match f {
                    Factor::T(t, _) => rhs.push(Sym::T(self.canon_term(*t))),
                    Factor::N(n, _) => rhs.push(Sym::N(idx[n])),
                    Factor::Grp(a) => {
                        let g = b.fresh("#G");
                        self.desugar_alts(b, idx, g, a);
                        rhs.push(Sym::N(g));
                    }
                    Factor::Opt(a) => {
                        let g = b.fresh("#O");
                        self.desugar_alts(b, idx, g, a);
                        b.prods.push((g, vec![]));
                        rhs.push(Sym::N(g));
                    }
                    Factor::Rep(a) => {
                        let r = b.fresh("#R");
                        let g = b.fresh("#RG");
                        self.desugar_alts(b, idx, g, a);
                        b.prods.push((r, vec![]));
                        b.prods.push((r, vec![Sym::N(g), Sym::N(r)]));
                        rhs.push(Sym::N(r));
                    }
                }
            }
            b.prods.push((lhs, rhs));
        }
    }

    /// nesting depth and construct census for non-triviality rules
    pub fn census(&self) -> Census {
        let mut c = Census::default();
        fn walk(alts: &Alts, d: usize, c: &mut Census) {
            c.max_nest = c.max_nest.max(d);
            if alts.len() > 1 {
                c.alts += 1;
            }
            for alt in alts {
                if alt.is_empty() {
                    c.empty_alts += 1;
                }
                for f in alt {
                    match f {
                        Factor::Grp(a) => {
                            c.grp += 1;
                            walk(a, d + 1, c)
                        }
                        Factor::Opt(a) => {
                            c.opt += 1;
                            walk(a, d + 1, c)
                        }
                        Factor::Rep(a) => {
                            c.rep += 1;
                            walk(a, d + 1, c)
                        }
                        _ => {}
                    }
                }
            }
        }
        for r in &self.rules {
            walk(&r.alts, 0, &mut c);
        }
        c
    }
}

#[derive(Default, Debug, Clone)]
pub struct Census {
    pub max_nest: usize,
    pub grp: usize,
    pub opt: usize,
    pub rep: usize,
    pub alts: usize,
    pub empty_alts: usize,
}

#[derive(Clone, Copy, Debug, PartialEq, Eq, Hash, PartialOrd, Ord)]
pub enum Sym {
    T(usize),
    N(usize),
}

/// Plain context-free grammar over terminal ids 0..nterm
#[derive(Clone, Debug)]
pub struct Bnf {
    pub nts: Vec<String>,
    pub start: usize,
    pub prods: Vec<(usize, Vec<Sym>)>,
    pub nterm: usize,
    /// the first `user_nts` non-terminals are the ones of the source grammar
    pub user_nts: usize,
}

impl Bnf {
    fn fresh(&mut self, p: &str) -> usize {
        let i = self.nts.len();
        self.nts.push(format!("{p}{i}"));
        i
    }
    pub fn prods_of(&self, n: usize) -> impl Iterator<Item = (usize, &Vec<Sym>)> {
        self.prods
            .iter()
            .enumerate()
            .filter(move |(_, (l, _))| *l == n)
            .map(|(i, (_, r))| (i, r))
    }
    pub fn nullable(&self) -> Vec<bool> {
        let mut nul = vec![false; self.nts.len()];
        loop {
            let mut ch = false;
            for (l, r) in &self.prods {
                if !nul[*l]
                    && r.iter().all(|s| match s {
                        Sym::T(_) => false,
                        Sym::N(n) => nul[*n],
                    })
                {
                    nul[*l] = true;
                    ch = true;
                }
            }
            if !ch {
                break;
            }
        }
        nul
    }
    pub fn productive(&self) -> Vec<bool> {
        let mut p = vec![false; self.nts.len()];
        loop {
            let mut ch = false;
            for (l, r) in &self.prods {
                if !p[*l]
                    && r.iter().all(|s| match s {
                        Sym::T(_) => true,
                        Sym::N(n) => p[*n],
                    })
                {
                    p[*l] = true;
                    ch = true;
                }
            }
            if !ch {
                break;
            }
        }
        p
    }
    pub fn reachable(&self) -> Vec<bool> {
        let mut r = vec![false; self.nts.len()];
        r[self.start] = true;
        loop {
            let mut ch = false;
            for (l, rhs) in &self.prods {
                if r[*l] {
                    for s in rhs {
                        if let Sym::N(n) = s {
                            if !r[*n] {
                                r[*n] = true;
                                ch = true;
                            }
                        }
                    }
                }
            }
            if !ch {
                break;
            }
        }
        r
    }
    /// A =>+ A alpha
    pub fn left_recursive(&self) -> Vec<bool> {
        let nul = self.nullable();
        let n = self.nts.len();
        let mut starts = vec![vec![false; n]; n];
        for (l, rhs) in &self.prods {
            for s in rhs {
                match s {
                    Sym::T(_) => break,
                    Sym::N(m) => {
                        starts[*l][*m] = true;
                        if !nul[*m] {
                            break;
                        }
                    }
                }
            }
        }
        for k in 0..n {
            for i in 0..n {
                if starts[i][k] {
                    for j in 0..n {
                        if starts[k][j] {
                            starts[i][j] = true;
                        }
                    }
                }
            }
        }
        (0..n).map(|i| starts[i][i]).collect()
    }
}

impl Grammar {
    /// consistently rename non-terminals
    pub fn rename_nts(&self, f: &dyn Fn(&str) -> String) -> Grammar {
        fn ren(alts: &Alts, f: &dyn Fn(&str) -> String) -> Alts {
            alts.iter()
                .map(|a| {
                    a.iter()
                        .map(|x| match x {
                            Factor::N(n, c) => Factor::N(f(n), c.clone()),
                            Factor::T(t, c) => Factor::T(*t, c.clone()),
                            Factor::Grp(a) => Factor::Grp(ren(a, f)),
                            Factor::Opt(a) => Factor::Opt(ren(a, f)),
                            Factor::Rep(a) => Factor::Rep(ren(a, f)),
                        })
                        .collect()
                })
                .collect()
        }
        let mut g = self.clone();
        g.start = f(&self.start);
        for r in g.rules.iter_mut() {
            r.name = f(&r.name);
            r.alts = ren(&r.alts, f);
        }
        for st in g.states.iter_mut() {
            st.skip = st.skip.iter().map(|n| f(n)).collect();
            for (ids, _) in st.on.iter_mut() {
                *ids = ids.iter().map(|n| f(n)).collect();
            }
        }
        g.nt_types = g.nt_types.iter().map(|(n, t)| (f(n), t.clone())).collect();
        g
    }
}

impl Grammar {
    /// rename a scanner state everywhere (declaration, terminal state lists, transitions)
    pub fn rename_state(&self, old: &str, new: &str) -> Grammar {
        let mut g = self.clone();
        for st in g.states.iter_mut() {
            if st.name == old {
                st.name = new.to_string();
            }
            for (_, tr) in st.on.iter_mut() {
                match tr {
                    Trans::Enter(n) | Trans::Push(n) => {
                        if n == old {
                            *n = new.to_string();
                        }
                    }
                    Trans::Pop => {}
                }
            }
        }
        g
    }
}
