//! Pipeline driver and in-process instantiation of generated parsers.
//!
//! `build()` runs parol's real pipeline on a PAR text exactly in the order `build.rs` does
//! (parse -> GrammarConfig -> check_and_transform_grammar_with_ignored -> analysis -> lexer source
//! -> parser source + export model) and then *interprets the generated Rust source text*
//! (R-source): the `scanner!{}` macro body goes through scnr2_generate's own macro front end,
//! the static tables are evaluated from their initialiser expressions with `syn`.

use anyhow::{Result, anyhow, bail};
use parol::generators::grammar_trans::check_and_transform_grammar_with_ignored;
use parol::parser::parol_grammar::GrammarType;
use parol::{
    CommonGeneratorConfig, GrammarConfig, ParserGeneratorConfig, calculate_lalr1_parse_table,
    calculate_lookahead_dfas, generate_lalr1_parser_export_model, generate_lalr1_parser_source,
    generate_lexer_source, generate_parser_export_model, generate_parser_source,
    obtain_grammar_config_from_string,
};
use parol_runtime::lr_parser::{LR1State, LRAction, LRParseTable, LRProduction};
use parol_runtime::parser::{LookaheadDFA, ParseType, Production, Trans};
use serde_json::Value;
use std::collections::BTreeSet;

#[derive(Debug, Clone)]
pub struct GenCfg {
    pub trim: bool,
    pub no_recovery: bool,
    pub max_depth: Option<usize>,
    pub minimize_boxed: bool,
    pub range: bool,
    pub node_kind_enums: bool,
}

impl Default for GenCfg {
    fn default() -> Self {
        GenCfg {
            trim: false,
            no_recovery: false,
            max_depth: None,
            minimize_boxed: false,
            range: false,
            node_kind_enums: false,
        }
    }
}

impl CommonGeneratorConfig for GenCfg {
    fn user_type_name(&self) -> &str {
        "Pv"
    }
    fn module_name(&self) -> &str {
        "pv_grammar"
    }
    fn minimize_boxed_types(&self) -> bool {
        self.minimize_boxed
    }
    fn range(&self) -> bool {
        self.range
    }
    fn node_kind_enums(&self) -> bool {
        self.node_kind_enums
    }
}

impl ParserGeneratorConfig for GenCfg {
    fn trim_parse_tree(&self) -> bool {
        self.trim
    }
    fn recovery_disabled(&self) -> bool {
        self.no_recovery
    }
    fn max_parsing_depth(&self) -> Option<usize> {
        self.max_depth
    }
}

impl parol::UserTraitGeneratorConfig for GenCfg {
    fn inner_attributes(&self) -> &[parol::InnerAttributes] {
        &[]
    }
}

/// Which stage rejected a grammar (parol returned Err - not a violation by itself).
#[derive(Debug, Clone, PartialEq, Eq)]
pub enum Stage {
    Parse,
    Transform,
    Analysis,
    Generate,
    Interpret,
}

#[derive(Debug)]
pub struct BuildError {
    pub stage: Stage,
    pub msg: String,
}

// ---------------------------------------------------------------------------------------------
// Const-expression evaluation of generated source
// ---------------------------------------------------------------------------------------------

#[derive(Debug, Clone, PartialEq)]
pub enum Val {
    Int(i64),
    Bool(bool),
    Str(String),
    List(Vec<Val>),
    Tuple(Vec<Val>),
    Struct(String, Vec<(String, Val)>),
    Call(String, Vec<Val>),
    Path(String),
}

impl Val {
    pub fn int(&self) -> Result<i64> {
        match self {
            Val::Int(i) => Ok(*i),
            _ => bail!("expected int, got {self:?}"),
        }
    }
    pub fn boolean(&self) -> Result<bool> {
        match self {
            Val::Bool(b) => Ok(*b),
            _ => bail!("expected bool, got {self:?}"),
        }
    }
    pub fn list(&self) -> Result<&Vec<Val>> {
        match self {
            Val::List(l) => Ok(l),
            _ => bail!("expected list, got {self:?}"),
        }
    }
    pub fn field(&self, name: &str) -> Result<&Val> {
        match self {
            Val::Struct(_, fs) => fs
                .iter()
                .find(|(n, _)| n == name)
                .map(|(_, v)| v)
                .ok_or_else(|| anyhow!("missing field {name}")),
            _ => bail!("expected struct, got {self:?}"),
        }
    }
}

fn path_to_string(p: &syn::Path) -> String {
    p.segments
        .iter()
        .map(|s| s.ident.to_string())
        .collect::<Vec<_>>()
        .join("::")
}

pub fn eval_expr(e: &syn::Expr) -> Result<Val> {
    use syn::Expr;
    Ok(match e {
        Expr::Lit(l) => match &l.lit {
            syn::Lit::Int(i) => Val::Int(i.base10_parse::<i64>()?),
            syn::Lit::Bool(b) => Val::Bool(b.value),
            syn::Lit::Str(s) => Val::Str(s.value()),
            other => bail!("unsupported literal {other:?}"),
        },
        Expr::Unary(u) => match u.op {
            syn::UnOp::Neg(_) => Val::Int(-eval_expr(&u.expr)?.int()?),
            _ => bail!("unsupported unary"),
        },
        Expr::Reference(r) => eval_expr(&r.expr)?,
        Expr::Paren(p) => eval_expr(&p.expr)?,
        Expr::Group(p) => eval_expr(&p.expr)?,
        Expr::Array(a) => Val::List(a.elems.iter().map(eval_expr).collect::<Result<_>>()?),
        Expr::Tuple(a) => Val::Tuple(a.elems.iter().map(eval_expr).collect::<Result<_>>()?),
        Expr::Struct(s) => Val::Struct(
            path_to_string(&s.path),
            s.fields
                .iter()
                .map(|f| {
                    let n = match &f.member {
                        syn::Member::Named(i) => i.to_string(),
                        syn::Member::Unnamed(i) => i.index.to_string(),
                    };
                    Ok((n, eval_expr(&f.expr)?))
                })
                .collect::<Result<_>>()?,
        ),
        Expr::Call(c) => {
            let name = match &*c.func {
                Expr::Path(p) => path_to_string(&p.path),
                _ => bail!("unsupported callee"),
            };
            Val::Call(name, c.args.iter().map(eval_expr).collect::<Result<_>>()?)
        }
        Expr::Path(p) => Val::Path(path_to_string(&p.path)),
        Expr::Cast(c) => eval_expr(&c.expr)?,
        other => bail!("unsupported expression kind: {}", quote::quote!(#other)),
    })
}

/// Tables as read from the generated source text.
#[derive(Debug, Clone, Default)]
pub struct SourceTables {
    pub is_lr: bool,
    pub terminal_names: Vec<String>,
    pub non_terminals: Vec<String>,
    pub max_k: usize,
    pub skip_tokens: Vec<Vec<u16>>,
    pub start_index: usize,
    /// (prod0, transitions (from, term, to, prod), k)
    pub automata: Vec<(i32, Vec<(usize, u16, usize, i32)>, usize)>,
    /// LL: (lhs, rhs reversed as in source; true = terminal, push)
    pub ll_productions: Vec<(usize, Vec<(bool, usize)>, bool)>,
    pub lr_productions: Vec<(usize, usize, bool)>,
    pub lr_actions: Vec<LrAct>,
    pub lr_states: Vec<(Vec<(u16, usize)>, Vec<(usize, usize)>)>,
    pub trim: bool,
    pub disable_recovery: bool,
    pub max_depth: Option<usize>,
}

#[derive(Debug, Clone, PartialEq, Eq)]
pub enum LrAct {
    Shift(usize),
    Reduce(usize, usize),
    Accept,
}

fn digits_after(src: &str, needle: &str) -> Option<usize> {
    let i = src.find(needle)? + needle.len();
    let rest = src[i..].trim_start();
    let d: String = rest.chars().take_while(|c| c.is_ascii_digit()).collect();
    d.parse().ok()
}

pub fn interpret_source(src: &str) -> Result<(SourceTables, proc_macro2::TokenStream)> {
    let file = syn::parse_file(src).map_err(|e| anyhow!("generated source does not parse: {e}"))?;
    let mut t = SourceTables::default();
    let mut scanner_tokens = None;
    for item in &file.items {
        let (name, expr) = match item {
            syn::Item::Const(c) => (c.ident.to_string(), &*c.expr),
            syn::Item::Static(c) => (c.ident.to_string(), &*c.expr),
            syn::Item::Macro(m) => {
                if path_to_string(&m.mac.path).ends_with("scanner") {
                    scanner_tokens = Some(m.mac.tokens.clone());
                }
                continue;
            }
            _ => continue,
        };
        match name.as_str() {
            "TERMINAL_NAMES" | "NON_TERMINALS" => {
                let v = eval_expr(expr)?;
                let names = v
                    .list()?
                    .iter()
                    .map(|x| match x {
                        Val::Str(s) => Ok(s.clone()),
                        _ => bail!("name is not a string"),
                    })
                    .collect::<Result<Vec<_>>>()?;
                if name == "TERMINAL_NAMES" {
                    t.terminal_names = names;
                } else {
                    t.non_terminals = names;
                }
            }
            "MAX_K" => t.max_k = eval_expr(expr)?.int()? as usize,
            "SKIP_TOKENS_BY_SCANNER_STATE" => {
                let v = eval_expr(expr)?;
                t.skip_tokens = v
                    .list()?
                    .iter()
                    .map(|l| {
                        l.list()?
                            .iter()
                            .map(|x| Ok(x.int()? as u16))
                            .collect::<Result<Vec<u16>>>()
                    })
                    .collect::<Result<_>>()?;
            }
            "LOOKAHEAD_AUTOMATA" => {
                let v = eval_expr(expr)?;
                for a in v.list()? {
                    let prod0 = a.field("prod0")?.int()? as i32;
                    let k = a.field("k")?.int()? as usize;
                    let mut trs = vec![];
                    for tr in a.field("transitions")?.list()? {
                        match tr {
                            Val::Call(n, args) if n == "Trans" && args.len() == 4 => trs.push((
                                args[0].int()? as usize,
                                args[1].int()? as u16,
                                args[2].int()? as usize,
                                args[3].int()? as i32,
                            )),
                            _ => bail!("bad transition {tr:?}"),
                        }
                    }
                    t.automata.push((prod0, trs, k));
                }
            }
            "PRODUCTIONS" => {
                let v = eval_expr(expr)?;
                for p in v.list()? {
                    match p {
                        Val::Struct(n, _) if n == "Production" => {
                            let lhs = p.field("lhs")?.int()? as usize;
                            let push = p.field("is_push_production")?.boolean()?;
                            let mut rhs = vec![];
                            for s in p.field("production")?.list()? {
                                match s {
                                    Val::Call(n, a) if n == "ParseType::N" && a.len() == 1 => {
                                        rhs.push((false, a[0].int()? as usize))
                                    }
                                    Val::Call(n, a) if n == "ParseType::T" && a.len() == 1 => {
                                        rhs.push((true, a[0].int()? as usize))
                                    }
                                    _ => bail!("bad parse type {s:?}"),
                                }
                            }
                            t.ll_productions.push((lhs, rhs, push));
                        }
                        Val::Struct(n, _) if n == "LRProduction" => {
                            t.is_lr = true;
                            t.lr_productions.push((
                                p.field("lhs")?.int()? as usize,
                                p.field("len")?.int()? as usize,
                                p.field("is_push_production")?.boolean()?,
                            ));
                        }
                        _ => bail!("bad production {p:?}"),
                    }
                }
            }
            "PARSE_TABLE" => {
                t.is_lr = true;
                let v = eval_expr(expr)?;
                for a in v.field("actions")?.list()? {
                    t.lr_actions.push(match a {
                        Val::Call(n, args) if n == "LRAction::Shift" => {
                            LrAct::Shift(args[0].int()? as usize)
                        }
                        Val::Call(n, args) if n == "LRAction::Reduce" => {
                            LrAct::Reduce(args[0].int()? as usize, args[1].int()? as usize)
                        }
                        Val::Path(n) if n == "LRAction::Accept" => LrAct::Accept,
                        _ => bail!("bad LR action {a:?}"),
                    });
                }
                for s in v.field("states")?.list()? {
                    let pair = |x: &Val| -> Result<(i64, i64)> {
                        match x {
                            Val::Tuple(t) if t.len() == 2 => Ok((t[0].int()?, t[1].int()?)),
                            _ => bail!("bad pair {x:?}"),
                        }
                    };
                    let acts = s
                        .field("actions")?
                        .list()?
                        .iter()
                        .map(|x| pair(x).map(|(a, b)| (a as u16, b as usize)))
                        .collect::<Result<Vec<_>>>()?;
                    let gotos = s
                        .field("gotos")?
                        .list()?
                        .iter()
                        .map(|x| pair(x).map(|(a, b)| (a as usize, b as usize)))
                        .collect::<Result<Vec<_>>>()?;
                    t.lr_states.push((acts, gotos));
                }
            }
            _ => {}
        }
    }
    // the function bodies are rendered token-wise ("LLKParser :: new ("): compare without spaces
    let compact: String = src.chars().filter(|c| !c.is_whitespace()).collect();
    let src = compact.as_str();
    t.start_index = if t.is_lr {
        digits_after(src, "LRParser::new(")
    } else {
        digits_after(src, "LLKParser::new(")
    }
    .ok_or_else(|| anyhow!("no parser constructor call found in generated source"))?;
    // the lookahead size handed to the TokenStream: `MAX_K` (LL) or a literal (LR)
    if let Some(i) = src.find("::match_function,") {
        let rest = &src[i + "::match_function,".len()..];
        let arg: String = rest.chars().take_while(|c| *c != ',').collect();
        if arg != "MAX_K" {
            t.max_k = arg.parse().map_err(|_| anyhow!("cannot read the lookahead argument of the TokenStream constructor: {arg}"))?;
        }
    } else {
        bail!("no TokenStream constructor call found in generated source");
    }
    t.trim = src.contains(".trim_parse_tree()");
    t.disable_recovery = src.contains(".disable_recovery()");
    t.max_depth = digits_after(src, ".set_max_parsing_depth(");
    let scanner_tokens =
        scanner_tokens.ok_or_else(|| anyhow!("no scanner! macro in generated source"))?;
    Ok((t, scanner_tokens))
}

// ---------------------------------------------------------------------------------------------
// Scanner instantiation from the scanner! macro body (what scnr2_macro would compile)
// ---------------------------------------------------------------------------------------------

pub type MatchFn = &'static (dyn Fn(char) -> Option<usize> + 'static);

pub struct ScannerStatic {
    pub modes: &'static [scnr2::ScannerMode],
    pub match_fn: &'static MatchFn,
    pub mode_names: Vec<String>,
    /// per mode: (pattern, token type, lookahead (positive, pattern)) in declaration order
    pub mode_patterns: Vec<Vec<(String, usize)>>,
}

thread_local! {
    pub static CHARS_SCANNED: std::cell::Cell<u64> = const { std::cell::Cell::new(0) };
}

fn conv_dfa(d: &scnr2_generate::dfa::Dfa, ncc: usize) -> Result<scnr2::Dfa> {
    let mut states = vec![];
    for s in &d.states {
        let mut trs: Vec<Option<scnr2::DfaTransition>> = vec![None; ncc];
        for tr in &s.transitions {
            let i = tr.elementary_interval_index.as_usize();
            if i >= ncc {
                bail!("character class index out of range");
            }
            trs[i] = Some(scnr2::DfaTransition {
                to: tr.target.as_usize(),
            });
        }
        let mut acc = vec![];
        for ad in &s.accept_data {
            use scnr2_generate::pattern::{AutomatonType, Lookahead};
            let la = match &ad.lookahead {
                Lookahead::None => scnr2::Lookahead::None,
                Lookahead::Positive(AutomatonType::Dfa(d)) => {
                    scnr2::Lookahead::Positive(conv_dfa(d, ncc)?)
                }
                Lookahead::Negative(AutomatonType::Dfa(d)) => {
                    scnr2::Lookahead::Negative(conv_dfa(d, ncc)?)
                }
                _ => bail!("lookahead automaton not converted to a DFA"),
            };
            acc.push(scnr2::AcceptData {
                token_type: ad.terminal_type.as_usize(),
                priority: ad.priority,
                lookahead: la,
            });
        }
        states.push(scnr2::DfaState {
            transitions: Box::leak(trs.into_boxed_slice()),
            accept_data: Box::leak(acc.into_boxed_slice()),
        });
    }
    Ok(scnr2::Dfa {
        states: Box::leak(states.into_boxed_slice()),
    })
}

pub fn build_scanner(tokens: proc_macro2::TokenStream) -> Result<ScannerStatic> {
    use scnr2_generate::character_classes::CharacterClasses;
    use scnr2_generate::dfa::Dfa;
    use scnr2_generate::nfa::Nfa;
    use scnr2_generate::scanner_data::{ScannerData, TransitionToNumericMode};
    let data: ScannerData =
        syn::parse2(tokens).map_err(|e| anyhow!("scanner! body does not parse: {e}"))?;
    let modes = data
        .build_scanner_modes()
        .map_err(|e| anyhow!("build_scanner_modes: {e}"))?;
    let mut nfas = vec![];
    for m in &modes {
        nfas.push(Nfa::build_from_patterns(&m.patterns).map_err(|e| anyhow!("nfa: {e}"))?);
    }
    let mut cc = CharacterClasses::new();
    for n in &nfas {
        n.collect_character_classes(&mut cc);
    }
    cc.create_disjoint_character_classes();
    for n in &mut nfas {
        n.convert_to_disjoint_character_classes(&cc);
    }
    let ncc = cc.intervals.len();
    let mut rt_modes = vec![];
    let mut mode_names = vec![];
    let mut mode_patterns = vec![];
    for (i, nfa) in nfas.iter().enumerate() {
        let dfa = Dfa::try_from(nfa).map_err(|e| anyhow!("dfa: {e}"))?;
        let trs: Vec<scnr2::Transition> = modes[i]
            .transitions
            .iter()
            .map(|t| match t {
                TransitionToNumericMode::SetMode(a, b) => scnr2::Transition::SetMode(*a, *b),
                TransitionToNumericMode::PushMode(a, b) => scnr2::Transition::PushMode(*a, *b),
                TransitionToNumericMode::PopMode(a) => scnr2::Transition::PopMode(*a),
            })
            .collect();
        let name: &'static str = Box::leak(modes[i].name.clone().into_boxed_str());
        mode_names.push(modes[i].name.clone());
        mode_patterns.push(
            modes[i]
                .patterns
                .iter()
                .map(|p| (p.pattern.clone(), p.terminal_type.as_usize()))
                .collect(),
        );
        rt_modes.push(scnr2::ScannerMode {
            name,
            transitions: Box::leak(trs.into_boxed_slice()),
            dfa: conv_dfa(&dfa, ncc)?,
        });
    }
    // match function: elementary interval -> index of the disjoint group containing it
    let mut table: Vec<(char, char, usize)> = vec![];
    for iv in &cc.elementary_intervals {
        let g = cc
            .intervals
            .iter()
            .position(|grp| grp.contains(iv))
            .ok_or_else(|| anyhow!("elementary interval belongs to no group"))?;
        table.push((*iv.start(), *iv.end(), g));
    }
    let table: &'static [(char, char, usize)] = Box::leak(table.into_boxed_slice());
    let f = move |c: char| -> Option<usize> {
        CHARS_SCANNED.with(|x| x.set(x.get() + 1));
        use std::cmp::Ordering;
        match table.binary_search_by(|iv| {
            if c < iv.0 {
                Ordering::Greater
            } else if c > iv.1 {
                Ordering::Less
            } else {
                Ordering::Equal
            }
        }) {
            Ok(i) => Some(table[i].2),
            Err(_) => None,
        }
    };
    let boxed: MatchFn = Box::leak(Box::new(f));
    let match_fn: &'static MatchFn = Box::leak(Box::new(boxed));
    Ok(ScannerStatic {
        modes: Box::leak(rt_modes.into_boxed_slice()),
        match_fn,
        mode_names,
        mode_patterns,
    })
}

// ---------------------------------------------------------------------------------------------
// The whole pipeline
// ---------------------------------------------------------------------------------------------

pub struct Statics {
    pub terminal_names: &'static [&'static str],
    pub non_terminal_names: &'static [&'static str],
    pub automata: &'static [LookaheadDFA],
    pub productions: &'static [Production],
    pub lr_table: Option<&'static LRParseTable>,
    pub lr_productions: &'static [LRProduction],
    pub skip_tokens: &'static [&'static [u16]],
    pub scanner: ScannerStatic,
}

pub struct Built {
    pub is_lr: bool,
    /// grammar config before the transformation
    pub gc0: GrammarConfig,
    /// grammar config after check_and_transform (what the generators see)
    pub gc: GrammarConfig,
    pub model: Value,
    pub source: String,
    pub tables: SourceTables,
    pub st: Statics,
    pub resolved_conflicts: usize,
    pub max_k_requested: usize,
}

fn leak_strs(v: &[String]) -> &'static [&'static str] {
    let v: Vec<&'static str> = v
        .iter()
        .map(|s| &*Box::leak(s.clone().into_boxed_str()))
        .collect();
    Box::leak(v.into_boxed_slice())
}

pub fn make_statics(t: &SourceTables, scanner: ScannerStatic) -> Statics {
    let automata: Vec<LookaheadDFA> = t
        .automata
        .iter()
        .map(|(p0, trs, k)| {
            let trs: Vec<Trans> = trs.iter().map(|(a, b, c, d)| Trans(*a, *b, *c, *d)).collect();
            LookaheadDFA::new(*p0, Box::leak(trs.into_boxed_slice()), *k)
        })
        .collect();
    let productions: Vec<Production> = t
        .ll_productions
        .iter()
        .map(|(lhs, rhs, push)| {
            let r: Vec<ParseType> = rhs
                .iter()
                .map(|(is_t, i)| {
                    if *is_t {
                        ParseType::T(*i as u16)
                    } else {
                        ParseType::N(*i)
                    }
                })
                .collect();
            Production {
                lhs: *lhs,
                production: Box::leak(r.into_boxed_slice()),
                is_push_production: *push,
            }
        })
        .collect();
    let lr_productions: Vec<LRProduction> = t
        .lr_productions
        .iter()
        .map(|(lhs, len, push)| LRProduction {
            lhs: *lhs,
            len: *len,
            is_push_production: *push,
        })
        .collect();
    let lr_table = if t.is_lr {
        let actions: Vec<LRAction> = t
            .lr_actions
            .iter()
            .map(|a| match a {
                LrAct::Shift(s) => LRAction::Shift(*s),
                LrAct::Reduce(n, p) => LRAction::Reduce(*n, *p),
                LrAct::Accept => LRAction::Accept,
            })
            .collect();
        let states: Vec<LR1State> = t
            .lr_states
            .iter()
            .map(|(a, g)| LR1State {
                actions: Box::leak(a.clone().into_boxed_slice()),
                gotos: Box::leak(g.clone().into_boxed_slice()),
            })
            .collect();
        let tbl = LRParseTable {
            actions: Box::leak(actions.into_boxed_slice()),
            states: Box::leak(states.into_boxed_slice()),
        };
        Some(&*Box::leak(Box::new(tbl)))
    } else {
        None
    };
    let skip: Vec<&'static [u16]> = t
        .skip_tokens
        .iter()
        .map(|v| &*Box::leak(v.clone().into_boxed_slice()))
        .collect();
    Statics {
        terminal_names: leak_strs(&t.terminal_names),
        non_terminal_names: leak_strs(&t.non_terminals),
        automata: Box::leak(automata.into_boxed_slice()),
        productions: Box::leak(productions.into_boxed_slice()),
        lr_table,
        lr_productions: Box::leak(lr_productions.into_boxed_slice()),
        skip_tokens: Box::leak(skip.into_boxed_slice()),
        scanner,
    }
}

/// Stage 1+2: text -> untransformed + transformed grammar configuration, like Builder::parse/expand.
pub fn front(text: &str) -> std::result::Result<(GrammarConfig, GrammarConfig), BuildError> {
    let gc0 = obtain_grammar_config_from_string(text, false).map_err(|e| BuildError {
        stage: Stage::Parse,
        msg: format!("{e:#}"),
    })?;
    let ignored: BTreeSet<String> = gc0
        .unreachable_non_terminals_to_ignore
        .iter()
        .cloned()
        .collect();
    let cfg = check_and_transform_grammar_with_ignored(&gc0.cfg, gc0.grammar_type, &ignored)
        .map_err(|e| BuildError {
            stage: Stage::Transform,
            msg: format!("{e}"),
        })?;
    let mut gc = gc0.clone();
    gc.update_cfg(cfg);
    Ok((gc0, gc))
}

pub fn build(text: &str, max_k: usize, cfg: &GenCfg) -> std::result::Result<Built, BuildError> {
    let (gc0, mut gc) = front(text)?;
    let is_lr = gc.grammar_type == GrammarType::LALR1;
    let gen_err = |e: anyhow::Error| BuildError {
        stage: Stage::Generate,
        msg: format!("{e:#}"),
    };
    let (source, model, resolved) = if is_lr {
        let (table, conflicts) = calculate_lalr1_parse_table(&gc).map_err(|e| BuildError {
            stage: Stage::Analysis,
            msg: format!("{e:#}"),
        })?;
        gc.update_lookahead_size(1);
        let lexer = generate_lexer_source(&gc, cfg).map_err(gen_err)?;
        let src = generate_lalr1_parser_source(&gc, &lexer, cfg, &table, false).map_err(gen_err)?;
        let model = generate_lalr1_parser_export_model(&gc, &table).map_err(gen_err)?;
        (src, model, conflicts.len())
    } else {
        let dfas = calculate_lookahead_dfas(&gc, max_k).map_err(|e| BuildError {
            stage: Stage::Analysis,
            msg: format!("{e:#}"),
        })?;
        let k = dfas.values().map(|d| d.k).max().unwrap_or(0);
        gc.update_lookahead_size(k);
        let lexer = generate_lexer_source(&gc, cfg).map_err(gen_err)?;
        let src = generate_parser_source(&gc, &lexer, cfg, &dfas, false).map_err(gen_err)?;
        let model = generate_parser_export_model(&gc, &dfas).map_err(gen_err)?;
        (src, model, 0)
    };
    let model = serde_json::to_value(&model).map_err(|e| BuildError {
        stage: Stage::Generate,
        msg: format!("export model not serializable: {e}"),
    })?;
    let int_err = |e: anyhow::Error| BuildError {
        stage: Stage::Interpret,
        msg: format!("{e:#}"),
    };
    let (tables, scanner_tokens) = interpret_source(&source).map_err(int_err)?;
    let scanner = build_scanner(scanner_tokens).map_err(int_err)?;
    let st = make_statics(&tables, scanner);
    Ok(Built {
        is_lr,
        gc0,
        gc,
        model,
        source,
        tables,
        st,
        resolved_conflicts: resolved,
        max_k_requested: max_k,
    })
}

/// The generated user trait / AST source for a (transformed) grammar configuration.
pub fn trait_source(gc: &GrammarConfig, cfg: &GenCfg) -> Result<String> {
    use parol::{GrammarTypeInfo, UserTraitGenerator};
    let mut type_info = GrammarTypeInfo::try_new(cfg.user_type_name())?;
    UserTraitGenerator::new(gc).generate_user_trait_source(cfg, gc.grammar_type, &mut type_info)
}
