//! Check driver: sharded execution, three-valued verdict bookkeeping, known findings,
//! result files (merged into evidence by bin/check).

use crate::prng::{Rng, hash_str};
use serde_json::{Value, json};
use std::collections::{BTreeMap, HashSet};
use std::sync::atomic::{AtomicBool, AtomicU64, Ordering};
use std::sync::{Arc, Mutex};
use std::time::{Duration, Instant};

/// set by `--light` (interpreter / valgrind slices): per-case inner loops shrink
pub static LIGHT: AtomicBool = AtomicBool::new(false);
pub fn per_case(n: usize) -> usize {
    if LIGHT.load(Ordering::Relaxed) { (n / 15).max(2) } else { n }
}

#[derive(Clone, Copy, Debug, PartialEq, Eq)]
pub enum Tier {
    Quick,
    Thorough,
}

#[derive(Clone, Debug)]
pub struct Ctx {
    pub prop: String,
    pub tier: Tier,
    pub seed: u64,
    pub build: String,
    pub shards: usize,
    /// scale factor for case counts (release build runs a slice)
    pub scale: f64,
    pub deadline: Instant,
    pub out: String,
    pub known: Vec<Value>,
    pub replay: Option<String>,
    /// wall watchdog per case (s); only ever produces "inconclusive"
    pub case_limit_s: u64,
}

impl Ctx {
    pub fn n(&self, quick: u64, thorough: u64) -> u64 {
        let base = if self.tier == Tier::Quick { quick } else { thorough };
        ((base as f64) * self.scale).ceil().max(1.0) as u64
    }
    pub fn quick(&self) -> bool {
        self.tier == Tier::Quick
    }
}

#[derive(Clone, Debug)]
pub struct Violation {
    /// observation-level signature used to match known findings
    pub signature: Value,
    pub what: String,
    pub witness: Value,
}

#[derive(Default)]
pub struct Report {
    pub evaluations: u64,
    pub distinct: HashSet<u64>,
    pub samples: Vec<Value>,
    pub violations: Vec<Violation>,
    pub inconclusive: BTreeMap<String, u64>,
    pub counters: BTreeMap<String, u64>,
    pub max_samples: usize,
}

impl Report {
    pub fn new() -> Self {
        Report {
            max_samples: 4,
            ..Default::default()
        }
    }
    pub fn eval(&mut self) {
        self.evaluations += 1;
    }
    pub fn evals(&mut self, n: u64) {
        self.evaluations += n;
    }
    pub fn nontrivial(&mut self, key: &str) {
        self.distinct.insert(hash_str(key));
    }
    pub fn nontrivial_h(&mut self, h: u64) {
        self.distinct.insert(h);
    }
    pub fn count(&mut self, k: &str) {
        *self.counters.entry(k.to_string()).or_insert(0) += 1;
    }
    pub fn count_n(&mut self, k: &str, n: u64) {
        *self.counters.entry(k.to_string()).or_insert(0) += n;
    }
    pub fn inconclusive(&mut self, why: &str) {
        *self.inconclusive.entry(why.to_string()).or_insert(0) += 1;
    }
    pub fn sample(&mut self, v: Value) {
        if self.samples.len() < self.max_samples {
            self.samples.push(v);
        }
    }
    pub fn violation(&mut self, signature: Value, what: impl Into<String>, witness: Value) {
        if self.violations.len() < 200 {
            self.violations.push(Violation {
                signature,
                what: what.into(),
                witness,
            });
        } else {
            self.count("violations_not_stored");
        }
    }
    pub fn merge(&mut self, o: Report) {
        self.evaluations += o.evaluations;
        self.distinct.extend(o.distinct);
        for s in o.samples {
            if self.samples.len() < 12 {
                self.samples.push(s);
            }
        }
        self.violations.extend(o.violations);
        for (k, v) in o.inconclusive {
            *self.inconclusive.entry(k).or_insert(0) += v;
        }
        for (k, v) in o.counters {
            *self.counters.entry(k).or_insert(0) += v;
        }
    }
}

/// Does known-finding entry `k` match this violation signature? Every key of the entry's
/// signature must be present and equal in the violation's signature.
pub fn known_matches(k: &Value, prop: &str, sig: &Value) -> bool {
    if k.get("property").and_then(|p| p.as_str()) != Some(prop) {
        return false;
    }
    if k.get("status").and_then(|p| p.as_str()) != Some("known") {
        return false;
    }
    match k.get("signature").and_then(|s| s.as_object()) {
        Some(ks) => ks.iter().all(|(key, v)| sig.get(key) == Some(v)),
        None => false,
    }
}

/// Run `ncases` cases over `ctx.shards` threads. Case i uses an Rng derived from
/// (seed, property, i). A wall-clock watchdog turns stuck cases into "inconclusive".
pub fn run_sharded<F>(ctx: &Ctx, label: &str, ncases: u64, f: F) -> Report
where
    F: Fn(&mut Rng, u64, &mut Report) + Send + Sync + 'static,
{
    let f = Arc::new(f);
    let shards = ctx.shards.max(1);
    let total = Arc::new(Mutex::new(Report::new()));
    let next = Arc::new(AtomicU64::new(0));
    let done_flags: Vec<Arc<AtomicBool>> =
        (0..shards).map(|_| Arc::new(AtomicBool::new(false))).collect();
    // per-shard: (case index + 1, start millis since t0) ; 0 = idle
    let cur: Vec<Arc<(AtomicU64, AtomicU64)>> = (0..shards)
        .map(|_| Arc::new((AtomicU64::new(0), AtomicU64::new(0))))
        .collect();
    let t0 = Instant::now();
    let mut handles = vec![];
    for s in 0..shards {
        let f = f.clone();
        let total = total.clone();
        let next = next.clone();
        let done = done_flags[s].clone();
        let cur = cur[s].clone();
        let seed = ctx.seed;
        let label = format!("{}:{}", ctx.prop, label);
        let deadline = ctx.deadline;
        let only: Option<u64> = std::env::var("PV_ONLY").ok().and_then(|v| v.parse().ok());
        let trace = std::env::var("PV_TRACE").is_ok();
        let h = std::thread::Builder::new()
            .stack_size(512 << 20)
            .spawn(move || {
                crate::run::install_panic_hook();
                let mut rep = Report::new();
                loop {
                    let i = next.fetch_add(1, Ordering::SeqCst);
                    if i >= ncases {
                        break;
                    }
                    if Instant::now() > deadline {
                        rep.count("cases_not_run_deadline");
                        continue;
                    }
                    if let Some(only) = only {
                        if i != only {
                            continue;
                        }
                    }
                    rep.count("cases_run");
                    cur.1.store(t0.elapsed().as_millis() as u64, Ordering::SeqCst);
                    cur.0.store(i + 1, Ordering::SeqCst);
                    let mut rng = Rng::derive(seed, &label, i, 0);
                    let tc = Instant::now();
                    let r = crate::run::guarded(|| f(&mut rng, i, &mut rep));
                    if trace && tc.elapsed().as_millis() > 500 {
                        eprintln!("TRACE slow case {i}: {} ms", tc.elapsed().as_millis());
                    }
                    if let Err(p) = r {
                        // a panic that escaped the check's own guards is a harness fault unless
                        // the check catches it itself; record as inconclusive with the message
                        rep.inconclusive(&format!("harness-panic: {}", truncate(&p, 160)));
                    }
                    cur.0.store(0, Ordering::SeqCst);
                    // merge periodically so that a later stuck case loses nothing
                    if rep.evaluations > 0 && (i % 64 == 0) {
                        let mut t = total.lock().unwrap();
                        t.merge(std::mem::replace(&mut rep, Report::new()));
                    }
                }
                total.lock().unwrap().merge(rep);
                done.store(true, Ordering::SeqCst);
            })
            .expect("spawn shard");
        handles.push(h);
    }
    // watchdog loop
    let case_limit = Duration::from_secs(ctx.case_limit_s);
    let mut stuck: Vec<u64> = vec![];
    loop {
        std::thread::sleep(Duration::from_millis(20));
        let mut all = true;
        let now_ms = t0.elapsed().as_millis() as u64;
        for s in 0..shards {
            if done_flags[s].load(Ordering::SeqCst) {
                continue;
            }
            let c = cur[s].0.load(Ordering::SeqCst);
            let st = cur[s].1.load(Ordering::SeqCst);
            if c != 0 && now_ms.saturating_sub(st) > case_limit.as_millis() as u64 {
                if !stuck.contains(&(c - 1)) {
                    stuck.push(c - 1);
                    if std::env::var("PV_TRACE").is_ok() {
                        eprintln!("TRACE stuck case {}", c - 1);
                    }
                }
                // consider this shard lost
                continue;
            }
            all = false;
        }
        if all {
            break;
        }
    }
    for (s, h) in handles.into_iter().enumerate() {
        if done_flags[s].load(Ordering::SeqCst) {
            let _ = h.join();
        }
    }
    let mut rep = std::mem::replace(&mut *total.lock().unwrap(), Report::new());
    for c in stuck {
        rep.inconclusive("watchdog: case exceeded its wall clock limit");
        rep.count_n("stuck_case_index_sum", c);
    }
    rep
}

pub fn truncate(s: &str, n: usize) -> String {
    if s.chars().count() <= n {
        s.to_string()
    } else {
        let t: String = s.chars().take(n).collect();
        format!("{t}…")
    }
}

/// Write the result file for bin/check and return the process exit code.
pub fn finish(ctx: &Ctx, rep: Report, rule: &str, min_distinct: u64, extra: Value, wall: f64) -> i32 {
    let mut known_hits: BTreeMap<String, u64> = BTreeMap::new();
    let mut new_violations: Vec<Value> = vec![];
    for v in &rep.violations {
        let mut matched = None;
        for k in &ctx.known {
            if known_matches(k, &ctx.prop, &v.signature) {
                matched = Some(
                    k.get("what")
                        .and_then(|w| w.as_str())
                        .unwrap_or("known finding")
                        .to_string(),
                );
                break;
            }
        }
        match matched {
            Some(w) => *known_hits.entry(w).or_insert(0) += 1,
            None => new_violations.push(json!({
                "signature": v.signature, "what": v.what, "witness": v.witness
            })),
        }
    }
    let distinct = rep.distinct.len() as u64;
    // a run cut short by its wall-clock budget (loaded machine) is judged against the share of the
    // planned cases it actually ran; the floor of 2 distinct non-trivial cases always applies
    let ran = rep.counters.get("cases_run").copied().unwrap_or(0);
    let cut = rep.counters.get("cases_not_run_deadline").copied().unwrap_or(0);
    let min_distinct = if cut > 0 && ran + cut > 0 { ((min_distinct as f64) * (ran as f64) / ((ran + cut) as f64)).floor() as u64 } else { min_distinct };
    let too_little = distinct < min_distinct.max(2);
    let res = json!({
        "property_id": ctx.prop,
        "tier": if ctx.tier == Tier::Quick { "quick" } else { "thorough" },
        "seed": ctx.seed,
        "build": ctx.build,
        "evaluations": rep.evaluations,
        "distinct_nontrivial": distinct,
        "min_distinct_required": min_distinct,
        "rule": rule,
        "samples": rep.samples,
        "inconclusive": rep.inconclusive,
        "counters": rep.counters,
        "known_hits": known_hits,
        "violations": new_violations,
        "observed_too_little": too_little,
        "extra": extra,
        "wall_s": wall,
    });
    std::fs::write(&ctx.out, serde_json::to_string_pretty(&res).unwrap()).expect("write result");
    if !new_violations.is_empty() {
        1
    } else if too_little {
        3
    } else {
        0
    }
}
