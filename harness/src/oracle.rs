//! Independent oracles: Earley membership, bounded language enumeration, FIRST_k/FOLLOW_k,
//! strong-LL(k) decision, canonical-LR(1)-merge LALR(1) conflict detection, edit distance.
//! Nothing here calls into parol.

use crate::gram::{Bnf, Sym};
use std::collections::{BTreeMap, BTreeSet, HashSet};

// ------------------------------------------------------------------------------------------
// Earley recognizer
// ------------------------------------------------------------------------------------------

pub struct Earley<'a> {
    g: &'a Bnf,
    nullable: Vec<bool>,
    by_lhs: Vec<Vec<usize>>,
}

impl<'a> Earley<'a> {
    pub fn new(g: &'a Bnf) -> Self {
        let mut by_lhs = vec![vec![]; g.nts.len()];
        for (i, (l, _)) in g.prods.iter().enumerate() {
            by_lhs[*l].push(i);
        }
        Earley {
            g,
            nullable: g.nullable(),
            by_lhs,
        }
    }

    /// Is `w` (terminal ids; any id >= nterm is a foreign token) derivable from `from`?
    pub fn accepts_from(&self, from: usize, w: &[usize]) -> bool {
        let n = w.len();
        // item = (prod, dot, origin)
        let mut sets: Vec<Vec<(usize, usize, usize)>> = vec![vec![]; n + 1];
        let mut seen: Vec<HashSet<(usize, usize, usize)>> = vec![HashSet::new(); n + 1];
        // virtual start: handled by seeding all productions of `from` at 0
        for &p in &self.by_lhs[from] {
            if seen[0].insert((p, 0, 0)) {
                sets[0].push((p, 0, 0));
            }
        }
        for i in 0..=n {
            let mut k = 0;
            while k < sets[i].len() {
                let (p, d, o) = sets[i][k];
                k += 1;
                let rhs = &self.g.prods[p].1;
                if d < rhs.len() {
                    match rhs[d] {
                        Sym::T(t) => {
                            if i < n && w[i] == t && seen[i + 1].insert((p, d + 1, o)) {
                                sets[i + 1].push((p, d + 1, o));
                            }
                        }
                        Sym::N(m) => {
                            for &q in &self.by_lhs[m] {
                                if seen[i].insert((q, 0, i)) {
                                    sets[i].push((q, 0, i));
                                }
                            }
                            if self.nullable[m] && seen[i].insert((p, d + 1, o)) {
                                sets[i].push((p, d + 1, o));
                            }
                        }
                    }
                } else {
                    // complete
                    let lhs = self.g.prods[p].0;
                    let mut j = 0;
                    while j < sets[o].len() {
                        let (p2, d2, o2) = sets[o][j];
                        j += 1;
                        let rhs2 = &self.g.prods[p2].1;
                        if d2 < rhs2.len() && rhs2[d2] == Sym::N(lhs) && seen[i].insert((p2, d2 + 1, o2))
                        {
                            sets[i].push((p2, d2 + 1, o2));
                        }
                    }
                }
            }
        }
        if n == 0 && self.nullable[from] {
            return true;
        }
        sets[n].iter().any(|(p, d, o)| {
            *o == 0 && self.g.prods[*p].0 == from && *d == self.g.prods[*p].1.len()
        })
    }

    pub fn accepts(&self, w: &[usize]) -> bool {
        self.accepts_from(self.g.start, w)
    }
}

// ------------------------------------------------------------------------------------------
// Bounded language enumeration
// ------------------------------------------------------------------------------------------

pub type Word = Vec<u8>;

/// All sentences of length <= max_len for every non-terminal. Returns None if a set exceeds cap.
pub fn bounded_langs(g: &Bnf, max_len: usize, cap: usize) -> Option<Vec<BTreeSet<Word>>> {
    let n = g.nts.len();
    let mut lang: Vec<BTreeSet<Word>> = vec![BTreeSet::new(); n];
    loop {
        let mut changed = false;
        for (l, rhs) in &g.prods {
            // concatenate
            let mut cur: Vec<Word> = vec![vec![]];
            for s in rhs {
                let mut next: Vec<Word> = vec![];
                match s {
                    Sym::T(t) => {
                        for w in &cur {
                            if w.len() < max_len {
                                let mut w2 = w.clone();
                                w2.push(*t as u8);
                                next.push(w2);
                            }
                        }
                    }
                    Sym::N(m) => {
                        for w in &cur {
                            for v in &lang[*m] {
                                if w.len() + v.len() <= max_len {
                                    let mut w2 = w.clone();
                                    w2.extend_from_slice(v);
                                    next.push(w2);
                                }
                            }
                        }
                    }
                }
                next.sort();
                next.dedup();
                if next.len() > cap {
                    return None;
                }
                cur = next;
                if cur.is_empty() {
                    break;
                }
            }
            for w in cur {
                if lang[*l].insert(w) {
                    changed = true;
                }
            }
            if lang[*l].len() > cap {
                return None;
            }
        }
        if !changed {
            break;
        }
    }
    Some(lang)
}

/// Count derivation trees (capped at 2) of w from start: ambiguity witness. CYK-like memo on
/// (symbol sequence position) — exponential in principle, used on tiny inputs only.
pub fn count_derivations(g: &Bnf, w: &[usize], cap_work: usize) -> Option<usize> {
    // memo: (nt, i, j) -> count(capped 2)
    struct Ctx<'a> {
        g: &'a Bnf,
        w: &'a [usize],
        memo: BTreeMap<(usize, usize, usize), usize>,
        active: BTreeSet<(usize, usize, usize)>,
        work: usize,
        cap: usize,
    }
    fn nt(c: &mut Ctx, a: usize, i: usize, j: usize) -> Option<usize> {
        if let Some(v) = c.memo.get(&(a, i, j)) {
            return Some(*v);
        }
        if !c.active.insert((a, i, j)) {
            // cyclic derivation A =>+ A over the same span: treat as 0 here (cycle = infinite
            // ambiguity, but grammars with cycles are rejected elsewhere)
            return Some(0);
        }
        let mut total = 0usize;
        let prods: Vec<Vec<Sym>> = c.g.prods_of(a).map(|(_, r)| r.clone()).collect();
        for rhs in prods {
            total += seq(c, &rhs, 0, i, j)?;
            if total >= 2 {
                total = 2;
                break;
            }
        }
        c.active.remove(&(a, i, j));
        c.memo.insert((a, i, j), total);
        Some(total)
    }
    fn seq(c: &mut Ctx, rhs: &[Sym], k: usize, i: usize, j: usize) -> Option<usize> {
        c.work += 1;
        if c.work > c.cap {
            return None;
        }
        if k == rhs.len() {
            return Some(if i == j { 1 } else { 0 });
        }
        match rhs[k] {
            Sym::T(t) => {
                if i < j && c.w[i] == t {
                    seq(c, rhs, k + 1, i + 1, j)
                } else {
                    Some(0)
                }
            }
            Sym::N(a) => {
                let mut total = 0usize;
                for m in i..=j {
                    let left = nt(c, a, i, m)?;
                    if left == 0 {
                        continue;
                    }
                    let right = seq(c, rhs, k + 1, m, j)?;
                    total += left * right;
                    if total >= 2 {
                        return Some(2);
                    }
                }
                Some(total)
            }
        }
    }
    let mut c = Ctx {
        g,
        w,
        memo: BTreeMap::new(),
        active: BTreeSet::new(),
        work: 0,
        cap: cap_work,
    };
    nt(&mut c, g.start, 0, w.len())
}

// ------------------------------------------------------------------------------------------
// FIRST_k / FOLLOW_k  (terminal ids as u16; END marker = u16::MAX)
// ------------------------------------------------------------------------------------------

pub const END: u16 = u16::MAX;
pub type Tup = Vec<u16>;
pub type TupSet = BTreeSet<Tup>;

pub fn kconcat(a: &TupSet, b: &TupSet, k: usize) -> TupSet {
    let mut r = TupSet::new();
    for x in a {
        if x.len() >= k || x.last() == Some(&END) {
            let mut y = x.clone();
            y.truncate(k);
            r.insert(y);
            continue;
        }
        for y in b {
            let mut z = x.clone();
            for t in y {
                if z.len() >= k {
                    break;
                }
                z.push(*t);
                if *t == END {
                    break;
                }
            }
            r.insert(z);
        }
    }
    r
}

pub struct FirstFollow {
    pub k: usize,
    /// FIRST_k per non-terminal
    pub first_nt: Vec<TupSet>,
    /// FIRST_k per production rhs
    pub first_prod: Vec<TupSet>,
    /// FOLLOW_k per non-terminal (END included after the start symbol)
    pub follow: Vec<TupSet>,
}

/// Kleene iteration from bottom. `cap` bounds the size of any set (None => inconclusive).
pub fn first_follow(g: &Bnf, k: usize, cap: usize) -> Option<FirstFollow> {
    let n = g.nts.len();
    let eps: TupSet = [vec![]].into_iter().collect();
    let mut first: Vec<TupSet> = vec![TupSet::new(); n];
    let first_of_seq = |first: &Vec<TupSet>, rhs: &[Sym]| -> TupSet {
        let mut cur = eps.clone();
        for s in rhs {
            let b: TupSet = match s {
                Sym::T(t) => [vec![*t as u16]].into_iter().collect(),
                Sym::N(m) => first[*m].clone(),
            };
            cur = kconcat(&cur, &b, k);
            if cur.is_empty() {
                break;
            }
        }
        cur
    };
    loop {
        let mut ch = false;
        for (l, rhs) in &g.prods {
            let f = first_of_seq(&first, rhs);
            for t in f {
                if first[*l].insert(t) {
                    ch = true;
                }
            }
            if first[*l].len() > cap {
                return None;
            }
        }
        if !ch {
            break;
        }
    }
    let first_prod: Vec<TupSet> = g.prods.iter().map(|(_, r)| first_of_seq(&first, r)).collect();
    // FOLLOW
    let mut follow: Vec<TupSet> = vec![TupSet::new(); n];
    follow[g.start].insert(vec![END]);
    loop {
        let mut ch = false;
        for (l, rhs) in &g.prods {
            for (i, s) in rhs.iter().enumerate() {
                if let Sym::N(m) = s {
                    let rest = first_of_seq(&first, &rhs[i + 1..]);
                    let add = kconcat(&rest, &follow[*l], k);
                    for t in add {
                        if follow[*m].insert(t) {
                            ch = true;
                        }
                    }
                    if follow[*m].len() > cap {
                        return None;
                    }
                }
            }
        }
        if !ch {
            break;
        }
    }
    Some(FirstFollow {
        k,
        first_nt: first,
        first_prod,
        follow,
    })
}

/// Lookahead sets FIRST_k(rhs) (+)_k FOLLOW_k(lhs) per production.
pub fn lookahead_sets(g: &Bnf, ff: &FirstFollow) -> Vec<TupSet> {
    g.prods
        .iter()
        .enumerate()
        .map(|(i, (l, _))| kconcat(&ff.first_prod[i], &ff.follow[*l], ff.k))
        .collect()
}

/// Minimal strong-LL k per non-terminal (0 for single-production non-terminals), None if not
/// decidable within max_k. Outer None = oracle size cap exceeded (inconclusive).
pub fn strong_ll_k(g: &Bnf, max_k: usize, cap: usize) -> Option<Vec<Option<usize>>> {
    let n = g.nts.len();
    let mut res: Vec<Option<usize>> = vec![None; n];
    let mut pending: Vec<usize> = vec![];
    for a in 0..n {
        let cnt = g.prods_of(a).count();
        if cnt <= 1 {
            res[a] = Some(0);
        } else {
            pending.push(a);
        }
    }
    for k in 1..=max_k {
        if pending.is_empty() {
            break;
        }
        let ff = first_follow(g, k, cap)?;
        let la = lookahead_sets(g, &ff);
        pending.retain(|&a| {
            let ps: Vec<usize> = g.prods_of(a).map(|(i, _)| i).collect();
            let mut disjoint = true;
            'o: for x in 0..ps.len() {
                for y in x + 1..ps.len() {
                    if la[ps[x]].intersection(&la[ps[y]]).next().is_some() {
                        disjoint = false;
                        break 'o;
                    }
                }
            }
            if disjoint {
                res[a] = Some(k);
                false
            } else {
                true
            }
        });
    }
    Some(res)
}

// ------------------------------------------------------------------------------------------
// LALR(1) via canonical LR(1) + merge by core
// ------------------------------------------------------------------------------------------

#[derive(Debug, Clone, PartialEq, Eq)]
pub enum LalrVerdict {
    NoConflict,
    Conflict(String),
    TooBig,
}

/// g must be augmented by the caller or not - we add S' -> S here.
pub fn lalr1_conflicts(g: &Bnf, max_states: usize) -> LalrVerdict {
    // augmented grammar: production index P = g.prods.len() is S' -> S
    let nprods = g.prods.len();
    let aug_lhs = g.nts.len();
    let rhs_of = |p: usize| -> Vec<Sym> {
        if p == nprods {
            vec![Sym::N(g.start)]
        } else {
            g.prods[p].1.clone()
        }
    };
    let lhs_of = |p: usize| -> usize { if p == nprods { aug_lhs } else { g.prods[p].0 } };
    let ff = match first_follow(g, 1, 100000) {
        Some(f) => f,
        None => return LalrVerdict::TooBig,
    };
    let nullable = g.nullable();
    // first of sequence beta followed by lookahead a
    let first_seq = |beta: &[Sym], a: u16| -> BTreeSet<u16> {
        let mut out = BTreeSet::new();
        let mut all_null = true;
        for s in beta {
            match s {
                Sym::T(t) => {
                    out.insert(*t as u16);
                    all_null = false;
                    break;
                }
                Sym::N(m) => {
                    for t in &ff.first_nt[*m] {
                        if let Some(x) = t.first() {
                            out.insert(*x);
                        }
                    }
                    if !nullable[*m] {
                        all_null = false;
                        break;
                    }
                }
            }
        }
        if all_null {
            out.insert(a);
        }
        out
    };
    type Item = (usize, usize, u16); // prod, dot, la
    let closure = |items: BTreeSet<Item>| -> BTreeSet<Item> {
        let mut set = items.clone();
        let mut work: Vec<Item> = items.into_iter().collect();
        while let Some((p, d, a)) = work.pop() {
            let rhs = rhs_of(p);
            if d < rhs.len() {
                if let Sym::N(m) = rhs[d] {
                    let las = first_seq(&rhs[d + 1..], a);
                    for (q, _) in g.prods_of(m) {
                        for b in &las {
                            let it = (q, 0, *b);
                            if set.insert(it) {
                                work.push(it);
                            }
                        }
                    }
                }
            }
        }
        set
    };
    let start: BTreeSet<Item> = closure([(nprods, 0usize, END)].into_iter().collect());
    let mut states: Vec<BTreeSet<Item>> = vec![start.clone()];
    let mut index: BTreeMap<BTreeSet<Item>, usize> = BTreeMap::new();
    index.insert(start, 0);
    let mut trans: Vec<BTreeMap<Sym, usize>> = vec![BTreeMap::new()];
    let mut i = 0;
    while i < states.len() {
        let mut by_sym: BTreeMap<Sym, BTreeSet<Item>> = BTreeMap::new();
        for (p, d, a) in &states[i] {
            let rhs = rhs_of(*p);
            if *d < rhs.len() {
                by_sym.entry(rhs[*d]).or_default().insert((*p, *d + 1, *a));
            }
        }
        for (s, kernel) in by_sym {
            let cl = closure(kernel);
            let j = if let Some(j) = index.get(&cl) {
                *j
            } else {
                let j = states.len();
                if j >= max_states {
                    return LalrVerdict::TooBig;
                }
                index.insert(cl.clone(), j);
                states.push(cl);
                trans.push(BTreeMap::new());
                j
            };
            trans[i].insert(s, j);
        }
        i += 1;
    }
    // merge by core
    let core = |st: &BTreeSet<Item>| -> BTreeSet<(usize, usize)> {
        st.iter().map(|(p, d, _)| (*p, *d)).collect()
    };
    let mut merged: BTreeMap<BTreeSet<(usize, usize)>, BTreeSet<Item>> = BTreeMap::new();
    for st in &states {
        merged.entry(core(st)).or_default().extend(st.iter().cloned());
    }
    for (_, st) in merged {
        // actions per terminal
        let mut shifts: BTreeSet<u16> = BTreeSet::new();
        let mut reduces: BTreeMap<u16, BTreeSet<usize>> = BTreeMap::new();
        for (p, d, a) in &st {
            let rhs = rhs_of(*p);
            if *d < rhs.len() {
                if let Sym::T(t) = rhs[*d] {
                    shifts.insert(t as u16);
                }
            } else {
                reduces.entry(*a).or_default().insert(*p);
            }
        }
        for (a, ps) in &reduces {
            if ps.len() > 1 {
                return LalrVerdict::Conflict(format!(
                    "reduce/reduce on {a} between productions {ps:?}"
                ));
            }
            if shifts.contains(a) {
                return LalrVerdict::Conflict(format!(
                    "shift/reduce on {a} with production {:?} (lhs {})",
                    ps,
                    lhs_of(*ps.iter().next().unwrap())
                ));
            }
        }
    }
    LalrVerdict::NoConflict
}

// ------------------------------------------------------------------------------------------
// Edit distance
// ------------------------------------------------------------------------------------------

pub fn levenshtein(a: &[u16], b: &[u16]) -> usize {
    let mut prev: Vec<usize> = (0..=b.len()).collect();
    for i in 1..=a.len() {
        let mut cur = vec![i; b.len() + 1];
        for j in 1..=b.len() {
            let sub = prev[j - 1] + if a[i - 1] == b[j - 1] { 0 } else { 1 };
            cur[j] = sub.min(prev[j] + 1).min(cur[j - 1] + 1);
        }
        prev = cur;
    }
    prev[b.len()]
}
