//! Small deterministic PRNG (xoshiro256**), no dependencies.

#[derive(Clone, Debug)]
pub struct Rng {
    s: [u64; 4],
}

fn splitmix(x: &mut u64) -> u64 {
    *x = x.wrapping_add(0x9E3779B97F4A7C15);
    let mut z = *x;
    z = (z ^ (z >> 30)).wrapping_mul(0xBF58476D1CE4E5B9);
    z = (z ^ (z >> 27)).wrapping_mul(0x94D049BB133111EB);
    z ^ (z >> 31)
}

pub fn hash_str(s: &str) -> u64 {
    // FNV-1a 64
    let mut h: u64 = 0xcbf29ce484222325;
    for b in s.as_bytes() {
        h ^= *b as u64;
        h = h.wrapping_mul(0x100000001b3);
    }
    h
}

pub fn hash_bytes(bs: &[u8]) -> u64 {
    let mut h: u64 = 0xcbf29ce484222325;
    for b in bs {
        h ^= *b as u64;
        h = h.wrapping_mul(0x100000001b3);
    }
    h
}

impl Rng {
    pub fn new(seed: u64) -> Self {
        let mut x = seed;
        let s = [
            splitmix(&mut x),
            splitmix(&mut x),
            splitmix(&mut x),
            splitmix(&mut x),
        ];
        Rng { s }
    }
    /// derive a sub-generator from labels; (seed, property, shard, case) style
    pub fn derive(seed: u64, label: &str, a: u64, b: u64) -> Self {
        let mut x = seed ^ hash_str(label).rotate_left(17) ^ a.wrapping_mul(0x9E3779B97F4A7C15)
            ^ b.wrapping_mul(0xD1B54A32D192ED03);
        let _ = splitmix(&mut x);
        Rng::new(x)
    }
    pub fn next_u64(&mut self) -> u64 {
        let r = self.s[1].wrapping_mul(5).rotate_left(7).wrapping_mul(9);
        let t = self.s[1] << 17;
        self.s[2] ^= self.s[0];
        self.s[3] ^= self.s[1];
        self.s[1] ^= self.s[2];
        self.s[0] ^= self.s[3];
        self.s[2] ^= t;
        self.s[3] = self.s[3].rotate_left(45);
        r
    }
    /// uniform in 0..n (n>0)
    pub fn below(&mut self, n: usize) -> usize {
        if n <= 1 {
            return 0;
        }
        (self.next_u64() % (n as u64)) as usize
    }
    /// inclusive range
    pub fn range(&mut self, lo: usize, hi: usize) -> usize {
        lo + self.below(hi - lo + 1)
    }
    pub fn chance(&mut self, num: usize, den: usize) -> bool {
        self.below(den) < num
    }
    pub fn pick<'a, T>(&mut self, xs: &'a [T]) -> &'a T {
        &xs[self.below(xs.len())]
    }
    pub fn shuffle<T>(&mut self, xs: &mut [T]) {
        for i in (1..xs.len()).rev() {
            let j = self.below(i + 1);
            xs.swap(i, j);
        }
    }
    /// weighted pick: returns index
    pub fn weighted(&mut self, ws: &[usize]) -> usize {
        let tot: usize = ws.iter().sum();
        let mut r = self.below(tot.max(1));
        for (i, w) in ws.iter().enumerate() {
            if r < *w {
                return i;
            }
            r -= *w;
        }
        ws.len() - 1
    }
}
