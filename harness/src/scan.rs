//! O-scan: reference tokenizer on regex ASTs the harness itself generated. No regex engine, no
//! parol, no scnr2: matching is a position-set simulation over the AST.

use crate::gram::*;
use std::collections::BTreeSet;

#[derive(Clone, Debug, PartialEq, Eq)]
pub enum Re {
    Lit(char),
    /// ranges, negated
    Class(Vec<(char, char)>, bool),
    /// `.` : any char except \n
    Any,
    Cat(Vec<Re>),
    Alt(Vec<Re>),
    Star(Box<Re>),
    Plus(Box<Re>),
    Opt(Box<Re>),
}

fn esc_lit(c: char) -> String {
    if matches!(
        c,
        '\\' | '.' | '+' | '*' | '?' | '(' | ')' | '|' | '[' | ']' | '{' | '}' | '^' | '$' | '#'
            | '&' | '-' | '~' | '/' | '"' | '\''
    ) {
        format!("\\{c}")
    } else if c == '\n' {
        "\\n".to_string()
    } else if c == '\r' {
        "\\r".to_string()
    } else if c == '\t' {
        "\\t".to_string()
    } else {
        c.to_string()
    }
}

impl Re {
    pub fn lit(s: &str) -> Re {
        let v: Vec<Re> = s.chars().map(Re::Lit).collect();
        if v.len() == 1 { v[0].clone() } else { Re::Cat(v) }
    }
    /// regex text (usable inside "..", '..' is not applicable, and /../)
    pub fn to_regex(&self) -> String {
        match self {
            Re::Lit(c) => esc_lit(*c),
            Re::Class(rs, neg) => {
                let mut s = String::from("[");
                if *neg {
                    s.push('^');
                }
                for (a, b) in rs {
                    if a == b {
                        s.push_str(&esc_lit(*a));
                    } else {
                        s.push_str(&esc_lit(*a));
                        s.push('-');
                        s.push_str(&esc_lit(*b));
                    }
                }
                s.push(']');
                s
            }
            Re::Any => ".".to_string(),
            Re::Cat(v) => v
                .iter()
                .map(|r| match r {
                    Re::Alt(_) => format!("({})", r.to_regex()),
                    _ => r.to_regex(),
                })
                .collect(),
            Re::Alt(v) => v.iter().map(|r| r.to_regex()).collect::<Vec<_>>().join("|"),
            Re::Star(r) => format!("{}*", Self::atom(r)),
            Re::Plus(r) => format!("{}+", Self::atom(r)),
            Re::Opt(r) => format!("{}?", Self::atom(r)),
        }
    }
    fn atom(r: &Re) -> String {
        match r {
            Re::Lit(_) | Re::Class(..) | Re::Any => r.to_regex(),
            _ => format!("({})", r.to_regex()),
        }
    }
    fn class_has(rs: &[(char, char)], neg: bool, c: char) -> bool {
        let inside = rs.iter().any(|(a, b)| *a <= c && c <= *b);
        inside != neg
    }
    /// all end positions reachable from any start in `starts`
    pub fn ends(&self, s: &[char], starts: &BTreeSet<usize>) -> BTreeSet<usize> {
        match self {
            Re::Lit(c) => starts.iter().filter(|p| **p < s.len() && s[**p] == *c).map(|p| p + 1).collect(),
            Re::Class(rs, neg) => starts
                .iter()
                .filter(|p| **p < s.len() && Self::class_has(rs, *neg, s[**p]))
                .map(|p| p + 1)
                .collect(),
            Re::Any => starts.iter().filter(|p| **p < s.len() && s[**p] != '\n').map(|p| p + 1).collect(),
            Re::Cat(v) => {
                let mut cur = starts.clone();
                for r in v {
                    cur = r.ends(s, &cur);
                    if cur.is_empty() {
                        break;
                    }
                }
                cur
            }
            Re::Alt(v) => {
                let mut out = BTreeSet::new();
                for r in v {
                    out.extend(r.ends(s, starts));
                }
                out
            }
            Re::Opt(r) => {
                let mut out = starts.clone();
                out.extend(r.ends(s, starts));
                out
            }
            Re::Star(r) => {
                let mut out = starts.clone();
                let mut frontier = starts.clone();
                loop {
                    let next: BTreeSet<usize> = r.ends(s, &frontier).difference(&out).cloned().collect();
                    if next.is_empty() {
                        break;
                    }
                    out.extend(next.iter().cloned());
                    frontier = next;
                }
                out
            }
            Re::Plus(r) => {
                let first = r.ends(s, starts);
                Re::Star(r.clone()).ends(s, &first)
            }
        }
    }
    /// non-empty match ends at position p
    pub fn match_ends(&self, s: &[char], p: usize) -> BTreeSet<usize> {
        let st: BTreeSet<usize> = [p].into_iter().collect();
        let mut e = self.ends(s, &st);
        e.remove(&p);
        e
    }
    pub fn matches_nonempty_prefix(&self, s: &[char], p: usize) -> bool {
        !self.match_ends(s, p).is_empty()
    }
}

pub const WS_CHARS: [char; 24] = [
    '\t', '\u{b}', '\u{c}', ' ', '\u{85}', '\u{a0}', '\u{1680}', '\u{2000}', '\u{2001}',
    '\u{2002}', '\u{2003}', '\u{2004}', '\u{2005}', '\u{2006}', '\u{2007}', '\u{2008}',
    '\u{2009}', '\u{200a}', '\u{2028}', '\u{2029}', '\u{202f}', '\u{205f}', '\u{3000}', '\u{3000}',
];

pub fn re_newline() -> Re {
    Re::Alt(vec![Re::lit("\r\n"), Re::Lit('\r'), Re::Lit('\n')])
}
pub fn re_whitespace() -> Re {
    Re::Plus(Box::new(Re::Class(WS_CHARS.iter().map(|c| (*c, *c)).collect(), false)))
}

#[derive(Clone, Debug, PartialEq, Eq)]
pub enum Kind {
    Newline,
    Whitespace,
    LineComment,
    BlockComment,
    /// harness terminal id (canonical)
    Term(usize),
    Error,
    /// unmatched text
    Gap,
}

#[derive(Clone, Debug)]
pub enum Matcher {
    Re(Re),
    /// line comment: start literal ... up to and including the first line break (or end of input)
    LineComment(Vec<String>),
    /// block comment: start literal ... first occurrence of end literal
    BlockComment(Vec<(String, String)>),
}

#[derive(Clone, Debug)]
pub struct Pat {
    pub kind: Kind,
    pub m: Matcher,
    pub la: Option<(bool, Re)>,
}

#[derive(Clone, Debug)]
pub struct Mode {
    pub name: String,
    pub pats: Vec<Pat>,
    /// (terminal id, transition)
    pub trans: Vec<(usize, Trans)>,
    /// terminal ids skipped in this state
    pub skip: Vec<usize>,
}

#[derive(Clone, Debug, PartialEq, Eq)]
pub struct RefTok {
    pub kind: Kind,
    pub start: usize,
    pub end: usize,
    pub mode: usize,
    pub state_skip: bool,
}

fn starts_with_at(s: &[char], p: usize, lit: &str) -> bool {
    let l: Vec<char> = lit.chars().collect();
    p + l.len() <= s.len() && s[p..p + l.len()] == l[..]
}

fn find_from(s: &[char], p: usize, lit: &str) -> Option<usize> {
    let l: Vec<char> = lit.chars().collect();
    if l.is_empty() {
        return Some(p);
    }
    let mut i = p;
    while i + l.len() <= s.len() {
        if s[i..i + l.len()] == l[..] {
            return Some(i);
        }
        i += 1;
    }
    None
}

impl Pat {
    /// candidate (non-empty) match ends at p; for comments the documented single end
    pub fn match_ends(&self, s: &[char], p: usize) -> BTreeSet<usize> {
        match &self.m {
            Matcher::Re(r) => r.match_ends(s, p),
            Matcher::LineComment(starts) => {
                let mut out = BTreeSet::new();
                for st in starts {
                    if starts_with_at(s, p, st) {
                        let mut i = p + st.chars().count();
                        while i < s.len() && s[i] != '\n' && s[i] != '\r' {
                            i += 1;
                        }
                        if i < s.len() {
                            if s[i] == '\r' && i + 1 < s.len() && s[i + 1] == '\n' {
                                i += 2;
                            } else {
                                i += 1;
                            }
                        }
                        out.insert(i);
                    }
                }
                // several start literals: longest match
                out.into_iter().max().into_iter().collect()
            }
            Matcher::BlockComment(pairs) => {
                let mut out = BTreeSet::new();
                for (st, en) in pairs {
                    if starts_with_at(s, p, st) {
                        let from = p + st.chars().count();
                        if let Some(e) = find_from(s, from, en) {
                            out.insert(e + en.chars().count());
                        }
                    }
                }
                out.into_iter().max().into_iter().collect()
            }
        }
    }
}

/// The reference tokenizer. Positions are char indices.
pub fn reference_scan(modes: &[Mode], input: &[char]) -> Vec<RefTok> {
    let mut out = vec![];
    let mut p = 0usize;
    let mut mode = 0usize;
    let mut stack: Vec<usize> = vec![];
    let mut gap_start: Option<usize> = None;
    while p < input.len() {
        let m = &modes[mode];
        let mut best: Option<(usize, usize)> = None; // (end, pattern index)
        for (pi, pat) in m.pats.iter().enumerate() {
            for e in pat.match_ends(input, p) {
                let ok = match &pat.la {
                    None => true,
                    Some((true, la)) => la.matches_nonempty_prefix(input, e),
                    Some((false, la)) => !la.matches_nonempty_prefix(input, e),
                };
                if ok && best.is_none_or(|(be, bp)| e > be || (e == be && pi < bp)) {
                    best = Some((e, pi));
                }
            }
        }
        match best {
            None => {
                if gap_start.is_none() {
                    gap_start = Some(p);
                }
                p += 1;
            }
            Some((e, pi)) => {
                if let Some(g) = gap_start.take() {
                    out.push(RefTok { kind: Kind::Gap, start: g, end: p, mode, state_skip: false });
                }
                let kind = m.pats[pi].kind.clone();
                let state_skip = matches!(&kind, Kind::Term(t) if m.skip.contains(t));
                out.push(RefTok { kind: kind.clone(), start: p, end: e, mode, state_skip });
                if let Kind::Term(t) = kind {
                    if let Some((_, tr)) = m.trans.iter().find(|(x, _)| *x == t) {
                        match tr {
                            Trans::Enter(n) => {
                                if let Some(i) = modes.iter().position(|x| x.name == *n) {
                                    mode = i;
                                }
                            }
                            Trans::Push(n) => {
                                if let Some(i) = modes.iter().position(|x| x.name == *n) {
                                    stack.push(mode);
                                    mode = i;
                                }
                            }
                            Trans::Pop => {
                                if let Some(i) = stack.pop() {
                                    mode = i;
                                }
                            }
                        }
                    }
                }
                p = e;
            }
        }
    }
    if let Some(g) = gap_start.take() {
        out.push(RefTok { kind: Kind::Gap, start: g, end: p, mode, state_skip: false });
    }
    out
}
