use pv::ev::{Ctx, Tier};
use std::time::{Duration, Instant};

fn arg(args: &[String], name: &str) -> Option<String> {
    args.iter().position(|a| a == name).and_then(|i| args.get(i + 1).cloned())
}

fn main() {
    pv::run::install_panic_hook();
    let args: Vec<String> = std::env::args().collect();
    if args.len() < 3 {
        eprintln!("usage: pv <ID> <quick|thorough> --seed N --build TAG --out FILE [--scale F] [--budget-s S] [--known FILE] [--replay FILE]");
        std::process::exit(2);
    }
    let prop = args[1].clone();
    let tier = if args[2] == "thorough" { Tier::Thorough } else { Tier::Quick };
    let seed: u64 = arg(&args, "--seed").and_then(|s| s.parse().ok()).unwrap_or(1);
    let build = arg(&args, "--build").unwrap_or_else(|| "checked".into());
    let out = arg(&args, "--out").unwrap_or_else(|| format!("/verif/work/{prop}.{build}.json"));
    let scale: f64 = arg(&args, "--scale").and_then(|s| s.parse().ok()).unwrap_or(1.0);
    let budget: u64 = arg(&args, "--budget-s").and_then(|s| s.parse().ok()).unwrap_or(if tier == Tier::Quick { 120 } else { 900 });
    let shards: usize = arg(&args, "--shards").and_then(|s| s.parse().ok()).unwrap_or(16);
    let known = arg(&args, "--known")
        .and_then(|f| std::fs::read_to_string(f).ok())
        .and_then(|s| serde_json::from_str::<serde_json::Value>(&s).ok())
        .and_then(|v| v.get("findings").and_then(|f| f.as_array().cloned()))
        .unwrap_or_default();
    let ctx = Ctx {
        prop,
        tier,
        seed,
        build,
        shards,
        scale,
        deadline: Instant::now() + Duration::from_secs(budget),
        out,
        known,
        replay: arg(&args, "--replay"),
    };
    let code = pv::checks::dispatch(&ctx);
    std::process::exit(code);
}
