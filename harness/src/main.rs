use pv::ev::{Ctx, Tier};
use std::time::{Duration, Instant};

fn arg(args: &[String], name: &str) -> Option<String> {
    args.iter().position(|a| a == name).and_then(|i| args.get(i + 1).cloned())
}

fn main() {
    pv::run::install_panic_hook();
    let args: Vec<String> = std::env::args().collect();
    if args.len() < 3 {
        eprintln!("usage: pv <ID> <quick|thorough> --seed N --build TAG --out FILE [--scale F] [--budget-s S] [--known FILE] [--replay FILE]");
        std::process::exit(2);
    }
    if args[1] == "gen" {
        // pv gen <file.par> <outdir> <k> : what a build.rs does, in a fresh process
        let k: usize = args[4].parse().unwrap();
        let out = std::path::PathBuf::from(&args[3]);
        std::fs::create_dir_all(&out).unwrap();
        let r = (|| -> Result<(), Box<dyn std::error::Error>> {
            let mut b = parol::build::Builder::with_explicit_output_dir(&out);
            b.grammar_file(&args[2])
                .expanded_grammar_output_file("expanded.par")
                .parser_output_file("parser.rs")
                .actions_output_file("trait.rs")
                .user_type_name("Pv")
                .user_trait_module_name("pv_grammar")
                .set_cargo_integration(false);
            b.max_lookahead(k)?;
            b.generate_parser()?;
            Ok(())
        })();
        match r {
            Ok(()) => std::process::exit(0),
            Err(e) => {
                eprintln!("gen error: {e}");
                std::process::exit(4)
            }
        }
    }
    if args[1] == "lspfmt" {
        // pv lspfmt <file> : format through the real language server, print the result
        let text = std::fs::read_to_string(&args[2]).unwrap();
        let mut l = pv::lsp::Lsp::start(3, serde_json::json!({}), "dbg").unwrap();
        l.open("file:///dbg.par", 1, &text);
        let r = l.request("textDocument/formatting", serde_json::json!({"textDocument": {"uri": "file:///dbg.par"}, "options": {"tabSize": 4, "insertSpaces": true}}), 10000);
        match r {
            Ok(v) => match pv::lsp::apply_edits(&text, v.as_array().map(|a| a.as_slice()).unwrap_or(&[])) {
                Ok(f) => println!("FORMATTED:\n{f}"),
                Err(e) => println!("EDIT ERROR {e} / {v}"),
            },
            Err(e) => println!("ERR {e:?}"),
        }
        return;
    }
    if args[1] == "dbg" {
        // pv dbg <file.par> <k> [inputs...]
        let text = std::fs::read_to_string(&args[2]).unwrap();
        let k: usize = args[3].parse().unwrap();
        match pv::inst::build(&text, k, &pv::inst::GenCfg::default()) {
            Err(e) => println!("build error {e:?}"),
            Ok(b) => {
                if std::env::var("DUMP").is_ok() {
                    println!("{}", b.source);
                }
                println!("lr={} nts={:?} max_k={} start={} conflicts={}", b.is_lr, b.tables.non_terminals, b.tables.max_k, b.tables.start_index, b.resolved_conflicts);
                for a in &b.tables.automata { println!("  dfa {:?}", a); }
                for inp in &args[4..] {
                    for rec in [true, false] {
                        let o = pv::run::parse(&b, inp, &pv::run::Opts { recovery: rec, ..Default::default() });
                        println!("{inp:?} rec={rec} ok={} err={:?} panic={:?} actions={:?}", o.ok, o.err, o.panic, o.actions.iter().map(|a| a.prod).collect::<Vec<_>>());
                    }
                }
            }
        }
        return;
    }
    let prop = args[1].clone();
    let tier = if args[2] == "thorough" { Tier::Thorough } else { Tier::Quick };
    let seed: u64 = arg(&args, "--seed").and_then(|s| s.parse().ok()).unwrap_or(1);
    let build = arg(&args, "--build").unwrap_or_else(|| "checked".into());
    let out = arg(&args, "--out").unwrap_or_else(|| format!("/verif/work/{prop}.{build}.json"));
    let scale: f64 = arg(&args, "--scale").and_then(|s| s.parse().ok()).unwrap_or(1.0);
    let budget: u64 = arg(&args, "--budget-s").and_then(|s| s.parse().ok()).unwrap_or(if tier == Tier::Quick { 120 } else { 900 });
    let shards: usize = arg(&args, "--shards").and_then(|s| s.parse().ok()).unwrap_or(16);
    let known = arg(&args, "--known")
        .and_then(|f| std::fs::read_to_string(f).ok())
        .and_then(|s| serde_json::from_str::<serde_json::Value>(&s).ok())
        .and_then(|v| v.get("findings").and_then(|f| f.as_array().cloned()))
        .unwrap_or_default();
    if args.iter().any(|a| a == "--light") {
        pv::ev::LIGHT.store(true, std::sync::atomic::Ordering::Relaxed);
    }
    let ctx = Ctx {
        prop,
        tier,
        seed,
        build,
        shards,
        scale,
        deadline: Instant::now() + Duration::from_secs(budget),
        out,
        known,
        replay: arg(&args, "--replay"),
        case_limit_s: arg(&args, "--case-limit-s").and_then(|s| s.parse().ok()).unwrap_or(120),
    };
    let code = pv::checks::dispatch(&ctx);
    pv::lsp::kill_all_children();
    std::process::exit(code);
}
