//! Running instantiated parsers with recording monitors at the public boundary:
//! UserActionsTrait callbacks, a custom TreeConstruct (logical clock + tree), result, panics.

use crate::inst::{Built, CHARS_SCANNED, MatchFn};
use parol_runtime::parser::parse_tree_type::TreeConstruct;
use parol_runtime::{
    LLKParser, LRParser, LexerError, ParolError, ParseTreeType, ParserError, Token, TokenStream,
    UserActionsTrait,
};
use scnr2::ScannerImpl;
use std::cell::RefCell;
use std::panic::{AssertUnwindSafe, catch_unwind};
use std::rc::Rc;

#[derive(Debug, Clone, PartialEq, Eq)]
pub struct Tok {
    pub ty: u16,
    pub text: String,
    pub start: u32,
    pub end: u32,
    pub start_line: u32,
    pub start_col: u32,
    pub end_line: u32,
    pub end_col: u32,
    pub number: u32,
    pub skip: bool,
    pub effective_skip: bool,
}

impl Tok {
    pub fn from(t: &Token<'_>) -> Self {
        Tok {
            ty: t.token_type,
            text: t.text().to_string(),
            start: t.location.start,
            end: t.location.end,
            start_line: t.location.start_line,
            start_col: t.location.start_column,
            end_line: t.location.end_line,
            end_col: t.location.end_column,
            number: t.token_number,
            skip: t.is_skip_token(),
            effective_skip: t.is_effectively_skip_token(),
        }
    }
}

#[derive(Debug, Clone, PartialEq, Eq)]
pub enum Node {
    Leaf(Tok),
    Inner(String, Vec<Node>),
}

impl Node {
    pub fn leaves<'a>(&'a self, out: &mut Vec<&'a Tok>) {
        // iterative: trees of 10^4-token inputs are deep on the right
        let mut stack: Vec<&'a Node> = vec![self];
        while let Some(n) = stack.pop() {
            match n {
                Node::Leaf(t) => out.push(t),
                Node::Inner(_, ch) => {
                    for c in ch.iter().rev() {
                        stack.push(c);
                    }
                }
            }
        }
    }
    pub fn depth(&self) -> usize {
        let mut best = 0;
        let mut stack: Vec<(&Node, usize)> = vec![(self, 1)];
        while let Some((n, d)) = stack.pop() {
            best = best.max(d);
            if let Node::Inner(_, ch) = n {
                for c in ch {
                    stack.push((c, d + 1));
                }
            }
        }
        best
    }
}

impl Drop for Node {
    fn drop(&mut self) {
        // iterative drop
        if let Node::Inner(_, ch) = self {
            let mut stack: Vec<Node> = std::mem::take(ch);
            while let Some(mut n) = stack.pop() {
                if let Node::Inner(_, c2) = &mut n {
                    stack.append(c2);
                }
            }
        }
    }
}

#[derive(Debug, Clone, PartialEq, Eq)]
pub enum Child {
    T(Tok),
    N(String),
}

#[derive(Debug, Clone, PartialEq, Eq)]
pub struct ActionEvent {
    pub seq: u64,
    pub prod: usize,
    pub children: Vec<Child>,
}

#[derive(Debug, Clone, PartialEq, Eq)]
pub enum ErrClass {
    Syntax,
    Prediction,
    Unprocessed,
    MaxDepth(usize),
    TooManyErrors,
    RecoveryFailed,
    Internal,
    Lexer,
    User,
    Tree,
    Other,
}

impl ErrClass {
    /// "the input is not a sentence" family (any legitimate way of saying no)
    pub fn is_rejection(&self) -> bool {
        matches!(
            self,
            ErrClass::Syntax
                | ErrClass::Prediction
                | ErrClass::Unprocessed
                | ErrClass::TooManyErrors
                | ErrClass::RecoveryFailed
        )
    }
}

pub fn classify(e: &ParolError) -> ErrClass {
    match e {
        ParolError::ParserError(p) => match p {
            ParserError::SyntaxErrors { .. } => ErrClass::Syntax,
            ParserError::PredictionError { .. } => ErrClass::Prediction,
            ParserError::UnprocessedInput { .. } => ErrClass::Unprocessed,
            ParserError::MaxParsingDepthExceeded { depth } => ErrClass::MaxDepth(*depth),
            ParserError::TooManyErrors { .. } => ErrClass::TooManyErrors,
            ParserError::RecoveryFailed => ErrClass::RecoveryFailed,
            ParserError::InternalError(_) | ParserError::DataError(_) => ErrClass::Internal,
            ParserError::TreeError { .. } => ErrClass::Tree,
            _ => ErrClass::Other,
        },
        ParolError::LexerError(l) => match l {
            LexerError::InternalError(_) => ErrClass::Internal,
            _ => ErrClass::Lexer,
        },
        ParolError::UserError(_) => ErrClass::User,
    }
}

#[derive(Default)]
pub struct Recorder {
    pub seq: u64,
    pub actions: Vec<ActionEvent>,
    pub comments: Vec<(u64, Tok)>,
    /// keep only counts (for huge inputs)
    pub light: bool,
    pub action_count: u64,
    /// logical clock for parsers that build their tree only at the end (LR): abort after this
    /// many semantic action calls
    pub max_actions: u64,
    pub clock_exceeded: bool,
}

impl<'t> UserActionsTrait<'t> for Recorder {
    fn call_semantic_action_for_production_number(
        &mut self,
        prod_num: usize,
        children: &[ParseTreeType<'t>],
    ) -> parol_runtime::Result<()> {
        self.seq += 1;
        self.action_count += 1;
        if self.action_count > self.max_actions {
            self.clock_exceeded = true;
            return Err(ParolError::UserError(anyhow::anyhow!(
                "pv: logical clock budget exceeded (semantic actions)"
            )));
        }
        if !self.light {
            self.actions.push(ActionEvent {
                seq: self.seq,
                prod: prod_num,
                children: children
                    .iter()
                    .map(|c| match c {
                        ParseTreeType::T(t) => Child::T(Tok::from(t)),
                        ParseTreeType::N(n) => Child::N(n.to_string()),
                    })
                    .collect(),
            });
        }
        Ok(())
    }
    fn on_comment(&mut self, token: Token<'t>) {
        self.seq += 1;
        self.comments.push((self.seq, Tok::from(&token)));
    }
}

pub struct TreeRec {
    pub stack: Vec<(String, Vec<Node>)>,
    pub root: Option<Node>,
    pub events: u64,
    pub budget: u64,
    pub keep: bool,
    pub unbalanced: bool,
}

impl TreeRec {
    pub fn new(budget: u64, keep: bool) -> Self {
        TreeRec {
            stack: vec![],
            root: None,
            events: 0,
            budget,
            keep,
            unbalanced: false,
        }
    }
    fn tick(&mut self) -> Result<(), ParolError> {
        self.events += 1;
        if self.events > self.budget {
            return Err(ParolError::UserError(anyhow::anyhow!(
                "pv: logical clock budget exceeded"
            )));
        }
        Ok(())
    }
}

impl<'t> TreeConstruct<'t> for TreeRec {
    type Error = ParolError;
    type Tree = Option<Node>;
    fn open_non_terminal(&mut self, name: &'static str, _h: Option<usize>) -> Result<(), ParolError> {
        self.tick()?;
        if self.keep {
            self.stack.push((name.to_string(), vec![]));
        }
        Ok(())
    }
    fn close_non_terminal(&mut self) -> Result<(), ParolError> {
        self.tick()?;
        if self.keep {
            match self.stack.pop() {
                Some((n, ch)) => {
                    let node = Node::Inner(n, ch);
                    if let Some(top) = self.stack.last_mut() {
                        top.1.push(node);
                    } else if self.root.is_none() {
                        self.root = Some(node);
                    } else {
                        self.unbalanced = true;
                    }
                }
                None => self.unbalanced = true,
            }
        }
        Ok(())
    }
    fn add_token(&mut self, token: &Token<'t>) -> Result<(), ParolError> {
        self.tick()?;
        if self.keep {
            match self.stack.last_mut() {
                Some(top) => top.1.push(Node::Leaf(Tok::from(token))),
                None => self.unbalanced = true,
            }
        }
        Ok(())
    }
    fn build(self) -> Result<Option<Node>, ParolError> {
        Ok(self.root)
    }
}

#[derive(Debug, Clone)]
pub struct Opts {
    pub recovery: bool,
    pub trim: bool,
    pub max_depth: Option<usize>,
    /// lookahead buffer size handed to the TokenStream (None = MAX_K of the generated source)
    pub k: Option<usize>,
    pub keep_tree: bool,
    pub light: bool,
    pub budget: u64,
}

impl Default for Opts {
    fn default() -> Self {
        Opts {
            recovery: true,
            trim: false,
            max_depth: None,
            k: None,
            keep_tree: true,
            light: false,
            budget: u64::MAX,
        }
    }
}

#[derive(Debug)]
pub struct Outcome {
    pub ok: bool,
    pub err: Option<(ErrClass, String)>,
    pub tree: Option<Node>,
    pub tree_unbalanced: bool,
    pub actions: Vec<ActionEvent>,
    pub action_count: u64,
    pub comments: Vec<(u64, Tok)>,
    pub tree_events: u64,
    pub chars_scanned: u64,
    pub panic: Option<String>,
    pub clock_exceeded: bool,
    /// filled by checks that need it: start offsets of the significant tokens
    pub sig_starts: Vec<u32>,
}

thread_local! {
    pub static LAST_PANIC: RefCell<Option<String>> = const { RefCell::new(None) };
}

/// Install once per process: records message + location of a panic in the panicking thread.
pub fn install_panic_hook() {
    std::panic::set_hook(Box::new(|info| {
        let msg = if let Some(s) = info.payload().downcast_ref::<&str>() {
            s.to_string()
        } else if let Some(s) = info.payload().downcast_ref::<String>() {
            s.clone()
        } else {
            "<non-string panic>".to_string()
        };
        let loc = info
            .location()
            .map(|l| format!("{}:{}", l.file(), l.line()))
            .unwrap_or_default();
        LAST_PANIC.with(|p| *p.borrow_mut() = Some(format!("{loc}: {msg}")));
    }));
}

pub fn take_panic() -> Option<String> {
    LAST_PANIC.with(|p| p.borrow_mut().take())
}

/// Run f, catching panics. Returns Err(message with location) on panic.
pub fn guarded<T>(f: impl FnOnce() -> T) -> Result<T, String> {
    let _ = take_panic();
    match catch_unwind(AssertUnwindSafe(f)) {
        Ok(v) => Ok(v),
        Err(_) => Err(take_panic().unwrap_or_else(|| "<panic without message>".to_string())),
    }
}

pub fn new_stream<'t>(
    b: &Built,
    input: &'t str,
    k: usize,
) -> Result<TokenStream<'t, MatchFn>, LexerError> {
    let scanner = Rc::new(RefCell::new(ScannerImpl::new(b.st.scanner.modes)));
    TokenStream::new_with_skip_tokens(
        input,
        "pv_input",
        scanner,
        b.st.scanner.match_fn,
        k,
        b.st.skip_tokens,
    )
}

/// Parse `input` with the parser instantiated from the generated source.
pub fn parse(b: &Built, input: &str, o: &Opts) -> Outcome {
    let mut rec = Recorder {
        light: o.light,
        max_actions: o.budget,
        ..Default::default()
    };
    let mut tree = TreeRec::new(o.budget, o.keep_tree);
    let chars0 = CHARS_SCANNED.with(|c| c.get());
    let k = o.k.unwrap_or(b.tables.max_k);
    let res = guarded(|| -> Result<(), ParolError> {
        let stream = new_stream(b, input, k)?;
        if b.is_lr {
            let mut p = LRParser::new(
                b.tables.start_index,
                b.st.lr_table.expect("lr table"),
                b.st.lr_productions,
                b.st.terminal_names,
                b.st.non_terminal_names,
            );
            if o.trim {
                p.trim_parse_tree();
            }
            if let Some(d) = o.max_depth {
                p.set_max_parsing_depth(d);
            }
            p.parse_into(&mut tree, stream, &mut rec)
        } else {
            let mut p = LLKParser::new(
                b.tables.start_index,
                b.st.automata,
                b.st.productions,
                b.st.terminal_names,
                b.st.non_terminal_names,
            );
            if o.trim {
                p.trim_parse_tree();
            }
            if !o.recovery {
                p.disable_recovery();
            }
            if let Some(d) = o.max_depth {
                p.set_max_parsing_depth(d);
            }
            p.parse_into(&mut tree, stream, &mut rec)
        }
    });
    let chars = CHARS_SCANNED.with(|c| c.get()) - chars0;
    let clock_exceeded = tree.events > tree.budget || rec.clock_exceeded;
    let unbalanced = tree.unbalanced || (tree.keep && !tree.stack.is_empty());
    let (ok, err, panic) = match res {
        Ok(Ok(())) => (true, None, None),
        Ok(Err(e)) => (false, Some((classify(&e), format!("{e}"))), None),
        Err(p) => (false, None, Some(p)),
    };
    Outcome {
        ok,
        err,
        tree: if ok { tree.root.take() } else { None },
        tree_unbalanced: ok && unbalanced,
        actions: std::mem::take(&mut rec.actions),
        action_count: rec.action_count,
        comments: std::mem::take(&mut rec.comments),
        tree_events: tree.events,
        chars_scanned: chars,
        panic,
        clock_exceeded,
        sig_starts: vec![],
    }
}

/// Drain the token stream the way a parser would (take skip tokens, consume) and return all
/// tokens in delivery order. `schedule`: 0 = eager consume, 1 = look ahead k-1 first.
pub fn scan_all(b: &Built, input: &str, k: usize, schedule: usize) -> Result<Vec<(Tok, usize)>, String> {
    let mut out = vec![];
    let r = guarded(|| -> Result<(), String> {
        let mut s = new_stream(b, input, k).map_err(|e| e.to_string())?;
        let mut guard = 0usize;
        loop {
            guard += 1;
            if guard > input.len() * 2 + 1000 {
                return Err("scan_all: no progress".to_string());
            }
            for t in s.take_skip_tokens() {
                out.push((Tok::from(&t), usize::MAX));
            }
            if schedule == 1 {
                for n in (0..s.k).rev() {
                    let _ = s.lookahead(n);
                }
            } else if schedule == 2 {
                let _ = s.lookahead(0);
            }
            let mode = s.current_scanner_index();
            let t = s.lookahead(0).map_err(|e| e.to_string())?;
            if t.token_type == 0 {
                // skip tokens in front of EOI were already taken above
                break;
            }
            for t in s.take_skip_tokens() {
                out.push((Tok::from(&t), usize::MAX));
            }
            let t = s.consume().map_err(|e| e.to_string())?;
            out.push((Tok::from(&t), mode));
        }
        for t in s.take_skip_tokens() {
            out.push((Tok::from(&t), usize::MAX));
        }
        Ok(())
    });
    match r {
        Ok(Ok(())) => Ok(out),
        Ok(Err(e)) => Err(e),
        Err(p) => Err(format!("panic: {p}")),
    }
}
