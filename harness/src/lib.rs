pub mod checks;
pub mod ev;
pub mod wl;
pub mod gram;
pub mod inst;
pub mod oracle;
pub mod prng;
pub mod run;
