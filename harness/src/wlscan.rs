//! Scanner-level workload: terminals built from regex ASTs, scanner states with transitions
//! and skip lists; inputs glued from the terminals' own languages.

use crate::gram::*;
use crate::prng::Rng;
use crate::scan::*;

pub struct ScanCase {
    pub g: Grammar,
    /// regex AST per terminal (index = TermDef index)
    pub res: Vec<Re>,
    pub la_res: Vec<Option<(bool, Re)>>,
}

pub fn sample_re(r: &Re, rng: &mut Rng, alphabet: &[char]) -> String {
    match r {
        Re::Lit(c) => c.to_string(),
        Re::Class(rs, neg) => {
            if !*neg {
                let (a, b) = *rng.pick(rs);
                let span = (b as u32 - a as u32) as usize;
                char::from_u32(a as u32 + rng.below(span + 1) as u32).unwrap_or(a).to_string()
            } else {
                for _ in 0..20 {
                    let c = *rng.pick(alphabet);
                    if !rs.iter().any(|(a, b)| *a <= c && c <= *b) {
                        return c.to_string();
                    }
                }
                "\u{e9}".to_string()
            }
        }
        Re::Any => rng.pick(alphabet).to_string(),
        Re::Cat(v) => v.iter().map(|x| sample_re(x, rng, alphabet)).collect(),
        Re::Alt(v) => sample_re(rng.pick(v), rng, alphabet),
        Re::Star(x) => (0..rng.below(4)).map(|_| sample_re(x, rng, alphabet)).collect(),
        Re::Plus(x) => (0..rng.range(1, 3)).map(|_| sample_re(x, rng, alphabet)).collect(),
        Re::Opt(x) => {
            if rng.chance(1, 2) {
                sample_re(x, rng, alphabet)
            } else {
                String::new()
            }
        }
    }
}

fn cls(r: &[(char, char)]) -> Re {
    Re::Class(r.to_vec(), false)
}

pub const ALPHABET: [char; 14] = ['a', 'b', 'c', 'd', '0', '1', '2', '+', '-', '=', '>', 'x', '#', '\u{e9}'];

/// (regex AST, may be written as a raw literal)
fn re_pool() -> Vec<(Re, bool)> {
    let mut v: Vec<(Re, bool)> = vec![];
    for k in ["a", "ab", "abc", "b", "ba", "c", "ca", "+", "++", "+=", "=", "==", "-", "->", ">", "d", "0", "01", "x"] {
        v.push((Re::lit(k), true));
    }
    v.push((Re::Plus(Box::new(cls(&[('a', 'c')]))), false));
    v.push((Re::Plus(Box::new(cls(&[('a', 'b')]))), false));
    v.push((Re::Plus(Box::new(cls(&[('0', '9')]))), false));
    v.push((Re::Plus(Box::new(cls(&[('0', '1')]))), false));
    v.push((Re::Cat(vec![Re::Star(Box::new(Re::Lit('a'))), Re::Lit('b')]), false));
    v.push((Re::Plus(Box::new(Re::lit("ab"))), false));
    v.push((Re::Cat(vec![Re::Lit('a'), Re::Opt(Box::new(cls(&[('b', 'c')])))]), false));
    v.push((Re::Cat(vec![cls(&[('a', 'd')]), Re::Star(Box::new(cls(&[('0', '9')])))]), false));
    v.push((Re::Alt(vec![Re::lit("ab"), Re::lit("abcd"), Re::lit("+")]), false));
    v.push((Re::Cat(vec![Re::Lit('='), Re::Opt(Box::new(Re::Alt(vec![Re::Lit('='), Re::Lit('>')])))]), false));
    v.push((Re::Plus(Box::new(Re::Class(vec![('a', 'c'), ('0', '2'), (' ', ' '), ('\n', '\n')], true))), false));
    v.push((Re::Cat(vec![Re::Lit('x'), Re::Star(Box::new(Re::Any)), Re::Lit('x')]), false));
    v
}

fn la_pool() -> Vec<Re> {
    vec![
        Re::Lit('b'),
        Re::Lit('='),
        Re::lit("ab"),
        cls(&[('0', '9')]),
        Re::Plus(Box::new(cls(&[('a', 'c')]))),
        Re::Alt(vec![Re::Lit('+'), Re::Lit('-')]),
        Re::Lit(' '),
    ]
}

pub struct ScanProfile {
    pub max_modes: usize,
    pub p_lookahead: usize,
    pub p_skip: usize,
    pub p_allow_unmatched: usize,
    pub p_auto_off: usize,
    pub comments: bool,
    pub lalr: bool,
}

pub fn gen_scan_case(rng: &mut Rng, sp: &ScanProfile) -> ScanCase {
    let nmodes = rng.range(1, sp.max_modes);
    let mut g = Grammar::new("S", if sp.lalr { GType::LALR } else { GType::LL });
    for i in 1..nmodes {
        g.states.push(ScannerState::new(&format!("M{i}")));
    }
    let nterm = rng.range(3, 7);
    let mut pool = re_pool();
    rng.shuffle(&mut pool);
    let lap = la_pool();
    let mut res = vec![];
    let mut la_res = vec![];
    for (re, can_raw) in pool.into_iter().take(nterm) {
        let raw = can_raw && rng.chance(1, 2);
        let (text, quote) = if raw {
            // raw literal: the text itself
            let lit: String = match &re {
                Re::Lit(c) => c.to_string(),
                Re::Cat(v) => v.iter().map(|x| if let Re::Lit(c) = x { *c } else { '?' }).collect(),
                _ => unreachable!(),
            };
            (lit, Quote::Raw)
        } else {
            (re.to_regex(), if rng.chance(1, 2) { Quote::Regex } else { Quote::Legacy })
        };
        let la = if rng.chance(sp.p_lookahead, 100) {
            let lr = rng.pick(&lap).clone();
            let positive = rng.chance(1, 2);
            Some((positive, lr))
        } else {
            None
        };
        let mut states: Vec<usize> = (0..nmodes).filter(|_| rng.chance(6, 10)).collect();
        if states.is_empty() {
            states.push(rng.below(nmodes));
        }
        let td = TermDef {
            text,
            quote,
            la: la.as_ref().map(|(p, r)| Lookahead { positive: *p, text: r.to_regex(), quote: Quote::Regex }),
            samples: vec![],
            states,
        };
        // identities must be unique
        if g.terms.iter().any(|t| t.identity() == td.identity()) {
            continue;
        }
        g.terms.push(td);
        res.push(re);
        la_res.push(la);
    }
    // samples
    for (i, r) in res.iter().enumerate() {
        for _ in 0..3 {
            let s = sample_re(r, rng, &ALPHABET);
            if !s.is_empty() {
                g.terms[i].samples.push(s);
            }
        }
        if g.terms[i].samples.is_empty() {
            g.terms[i].samples.push("a".into());
        }
    }
    // every mode needs a terminal
    for m in 0..nmodes {
        if !g.terms.iter().any(|t| t.states.contains(&m)) {
            let i = rng.below(g.terms.len());
            g.terms[i].states.push(m);
            g.terms[i].states.sort();
        }
    }
    // flags, transitions, skip lists
    let tname = |i: usize| format!("T{i}");
    for m in 0..nmodes {
        if rng.chance(sp.p_auto_off, 100) {
            g.states[m].auto_ws = false;
        }
        if rng.chance(sp.p_auto_off, 100) {
            g.states[m].auto_nl = false;
        }
        if rng.chance(sp.p_allow_unmatched, 100) {
            g.states[m].allow_unmatched = true;
        }
        if sp.comments && rng.chance(1, 2) {
            g.states[m].line_comments.push(("//".into(), Quote::Raw));
        }
        if sp.comments && rng.chance(1, 2) {
            g.states[m].block_comments.push((("/*".into(), Quote::Raw), ("*/".into(), Quote::Raw)));
        }
        let in_mode: Vec<usize> = (0..g.terms.len()).filter(|i| g.terms[*i].states.contains(&m)).collect();
        if nmodes > 1 || rng.chance(1, 4) {
            let ntr = rng.range(1, 2.min(in_mode.len()));
            let mut cands = in_mode.clone();
            rng.shuffle(&mut cands);
            for t in cands.into_iter().take(ntr) {
                let target = format!("{}", g.states[rng.below(nmodes)].name);
                let tr = match rng.below(4) {
                    0 => Trans::Enter(target),
                    1 | 2 => Trans::Push(target),
                    _ => Trans::Pop,
                };
                g.states[m].on.push((vec![tname(t)], tr));
            }
        }
        if rng.chance(sp.p_skip, 100) && in_mode.len() >= 2 {
            let t = *rng.pick(&in_mode);
            // a terminal with a transition in this mode stays significant
            if !g.states[m].on.iter().any(|(ids, _)| ids.contains(&tname(t))) {
                g.states[m].skip.push(tname(t));
            }
        }
    }
    // grammar: S: { T0 | T1 | ... }; Ti: terminal;
    let alts: Alts = (0..g.terms.len()).map(|i| vec![Factor::N(tname(i), AstCtl::default())]).collect();
    g.rules.push(Rule { name: "S".into(), alts: vec![vec![Factor::Rep(alts)]] });
    for i in 0..g.terms.len() {
        g.rules.push(Rule { name: tname(i), alts: vec![vec![Factor::T(i, AstCtl::default())]] });
    }
    ScanCase { g, res, la_res }
}

/// Reference scanner layout from the harness grammar (documented order: newline, whitespace,
/// line comment, block comment, user terminals in order of first occurrence, error token).
pub fn modes_of(sc: &ScanCase) -> Vec<Mode> {
    let g = &sc.g;
    let term_of_nt = |name: &str| -> Option<usize> {
        g.rules.iter().find(|r| r.name == name).and_then(|r| {
            if r.alts.len() == 1 && r.alts[0].len() == 1 {
                if let Factor::T(t, _) = &r.alts[0][0] {
                    return Some(g.canon_term(*t));
                }
            }
            None
        })
    };
    let mut modes = vec![];
    for (mi, st) in g.states.iter().enumerate() {
        let mut pats = vec![];
        if st.auto_nl {
            pats.push(Pat { kind: Kind::Newline, m: Matcher::Re(re_newline()), la: None });
        }
        if st.auto_ws {
            pats.push(Pat { kind: Kind::Whitespace, m: Matcher::Re(re_whitespace()), la: None });
        }
        if !st.line_comments.is_empty() {
            pats.push(Pat { kind: Kind::LineComment, m: Matcher::LineComment(st.line_comments.iter().map(|(t, _)| t.clone()).collect()), la: None });
        }
        if !st.block_comments.is_empty() {
            pats.push(Pat { kind: Kind::BlockComment, m: Matcher::BlockComment(st.block_comments.iter().map(|((s, _), (e, _))| (s.clone(), e.clone())).collect()), la: None });
        }
        for (ti, td) in g.terms.iter().enumerate() {
            let in_state = if td.states.is_empty() { mi == 0 } else { td.states.contains(&mi) };
            if in_state && g.canon_term(ti) == ti {
                pats.push(Pat { kind: Kind::Term(ti), m: Matcher::Re(sc.res[ti].clone()), la: sc.la_res[ti].clone() });
            }
        }
        if !st.allow_unmatched {
            pats.push(Pat { kind: Kind::Error, m: Matcher::Re(Re::Any), la: None });
        }
        let trans = st
            .on
            .iter()
            .flat_map(|(ids, tr)| ids.iter().filter_map(|n| term_of_nt(n)).map(|t| (t, tr.clone())).collect::<Vec<_>>())
            .collect();
        let skip = st.skip.iter().filter_map(|n| term_of_nt(n)).collect();
        modes.push(Mode { name: st.name.clone(), pats, trans, skip });
    }
    modes
}

/// Inputs glued from terminal samples, separators and junk.
pub fn gen_scan_input(sc: &ScanCase, rng: &mut Rng, max_pieces: usize) -> String {
    let n = rng.range(0, max_pieces);
    let mut s = String::new();
    for _ in 0..n {
        match rng.below(10) {
            0..=5 => {
                let t = rng.below(sc.g.terms.len());
                if rng.chance(2, 3) {
                    s.push_str(rng.pick(&sc.g.terms[t].samples[..]).as_str());
                } else {
                    s.push_str(&sample_re(&sc.res[t], rng, &ALPHABET));
                }
            }
            6 | 7 => s.push_str(*rng.pick(&[" ", "\n", "\t", "  ", "\r\n", " \n", "\r"])),
            8 => s.push(*rng.pick(&ALPHABET)),
            _ => s.push_str(*rng.pick(&["#", "\u{e9}", "\u{2028}", "?", "ab", "+=", "=="])),
        }
    }
    s
}
