//! Workload generators: grammars (G-ebnf), sentences / mutants / enumerations (G-in).

use crate::gram::*;
use crate::prng::Rng;

#[derive(Clone, Copy, Debug, PartialEq, Eq)]
pub enum Names {
    Plain,
    Clash,
    /// names that collide after case conversion, Rust keywords, std type names
    Idents,
}

#[derive(Clone, Copy, Debug, PartialEq, Eq)]
pub enum Terms {
    /// distinct raw one-character literals
    Letters,
    /// letters + keywords + number/identifier regexes (all lexemes disjoint)
    Mixed,
    /// same text under different quoting styles
    Quoting,
    /// terminals whose generated names collide or need mangling
    NameClash,
}

#[derive(Clone, Debug)]
pub struct Profile {
    pub name: &'static str,
    pub gtype: GType,
    pub n_nts: (usize, usize),
    pub n_terms: (usize, usize),
    pub max_alts: usize,
    pub max_seq: usize,
    pub nest: usize,
    /// percent of factors that are group/optional/repetition
    pub p_ebnf: usize,
    /// percent of non-terminals whose alternatives start with pairwise distinct terminals
    pub p_guard: usize,
    /// percent chance that a factor referencing a non-terminal may point backwards (recursion)
    pub p_back: usize,
    /// allow a backward/self reference in first position (left recursion)
    pub left_rec: bool,
    /// start symbol occurs on a right-hand side
    pub recursive_start: bool,
    /// force the start symbol to have exactly one alternative
    pub single_start: bool,
    pub p_empty_alt: usize,
    pub names: Names,
    pub terms: Terms,
    /// percent of alternatives (of one NT) that are created by copying a prefix of a sibling
    pub p_shared_prefix: usize,
    /// percent of symbols with a clip marker
    pub p_clip: usize,
    /// percent of grammars whose rules are written in a random order (the start symbol is named by
    /// %start, not by position; definitions may precede uses)
    pub p_shuffle: usize,
}

impl Profile {
    pub const fn base(name: &'static str, gtype: GType) -> Profile {
        Profile {
            name,
            gtype,
            n_nts: (1, 5),
            n_terms: (2, 5),
            max_alts: 3,
            max_seq: 4,
            nest: 2,
            p_ebnf: 25,
            p_guard: 60,
            p_back: 25,
            left_rec: false,
            recursive_start: false,
            single_start: false,
            p_empty_alt: 10,
            names: Names::Plain,
            terms: Terms::Letters,
            p_shared_prefix: 0,
            p_clip: 0,
            p_shuffle: 35,
        }
    }
}

pub fn ll_profiles() -> Vec<Profile> {
    let ll = |n| Profile::base(n, GType::LL);
    vec![
        ll("ll-plain"),
        Profile {
            p_guard: 20,
            n_terms: (2, 3),
            p_ebnf: 35,
            ..ll("ll-deep-k")
        },
        Profile {
            p_empty_alt: 35,
            p_ebnf: 45,
            p_guard: 40,
            ..ll("ll-nullable")
        },
        Profile {
            terms: Terms::Quoting,
            n_terms: (3, 6),
            ..ll("quoting")
        },
        Profile {
            names: Names::Clash,
            p_ebnf: 50,
            nest: 3,
            ..ll("name-clash")
        },
        Profile {
            p_shared_prefix: 60,
            max_alts: 4,
            p_guard: 10,
            ..ll("tied-prefix")
        },
        Profile {
            terms: Terms::Mixed,
            n_terms: (3, 7),
            p_clip: 20,
            ..ll("mixed-terms")
        },
    ]
}

pub fn lr_profiles() -> Vec<Profile> {
    let lr = |n| Profile::base(n, GType::LALR);
    vec![
        Profile {
            left_rec: true,
            p_back: 40,
            p_guard: 30,
            ..lr("lr-left-rec")
        },
        Profile {
            left_rec: true,
            recursive_start: true,
            single_start: true,
            p_guard: 30,
            ..lr("lr-recursive-start")
        },
        Profile {
            recursive_start: true,
            left_rec: true,
            p_guard: 30,
            ..lr("lr-recursive-start-multi")
        },
        lr("lr-plain"),
        Profile {
            p_empty_alt: 30,
            p_ebnf: 45,
            left_rec: true,
            ..lr("lr-nullable")
        },
        Profile {
            names: Names::Clash,
            p_ebnf: 50,
            nest: 3,
            left_rec: true,
            ..lr("lr-name-clash")
        },
        Profile {
            terms: Terms::Quoting,
            n_terms: (3, 6),
            left_rec: true,
            ..lr("lr-quoting")
        },
    ]
}

const IDENT_NAMES: [&str; 30] = [
    "a_b", "AB", "Ab", "A_B", "ab", "type", "fn", "struct", "Self", "self_", "Box", "Vec", "Option", "Token",
    "T1", "t1", "_x", "S0", "match", "loop", "crate", "super", "Result", "String", "Range", "dyn", "impl", "Ok", "Err", "trait",
];
/// every strict, reserved and weak Rust keyword (2024 edition); used as non-terminal names (as
/// written and capitalised) and as terminal texts
pub const RUST_KEYWORDS: [&str; 55] = [
    "as", "break", "const", "continue", "crate", "else", "enum", "extern", "false", "fn", "for", "if", "impl", "in", "let", "loop", "match", "mod", "move", "mut",
    "pub", "ref", "return", "self", "Self", "static", "struct", "super", "trait", "true", "type", "unsafe", "use", "where", "while", "async", "await", "dyn",
    "abstract", "become", "box", "do", "final", "macro", "override", "priv", "typeof", "unsized", "virtual", "yield", "try", "gen", "union", "raw", "safe",
];
const PLAIN_NAMES: [&str; 8] = ["S", "A", "B", "C", "D", "E", "F", "G"];
const CLASH_NAMES: [&str; 24] = [
    "S", "SOpt", "SList", "SGroup", "SOpt0", "SList0", "SGroup0", "S0", "A", "AOpt", "AList",
    "AGroup", "ASuffix", "ASuffix0", "ASuffix1", "SSuffix", "SSuffix0", "AOptGroup", "SListGroup",
    "AListOpt", "SOptList", "A0", "SOpt1", "AList1",
];

pub fn gen_terms(rng: &mut Rng, kind: Terms, n: usize) -> Vec<TermDef> {
    match kind {
        Terms::Letters => {
            let mut pool: Vec<&str> = vec![
                "a", "b", "c", "d", "e", "f", "g", "h", ",", ";", "+", "(", ")", "*", "=", "!",
            ];
            rng.shuffle(&mut pool);
            pool.into_iter().take(n).map(TermDef::raw).collect()
        }
        Terms::Mixed => {
            let mut pool: Vec<TermDef> = vec![];
            for t in ["a", "b", "c", ",", ";", "+", "(", ")", "=", "->", "::", "<=", "%x"] {
                pool.push(TermDef::raw(t));
            }
            for t in ["if", "then", "else", "end"] {
                pool.push(TermDef {
                    text: t.to_string(),
                    quote: Quote::Legacy,
                    la: None,
                    samples: vec![t.to_string()],
                    states: vec![],
                });
            }
            pool.push(TermDef {
                text: "[0-9]+".into(),
                quote: Quote::Regex,
                la: None,
                samples: vec!["7".into(), "42".into(), "007".into()],
                states: vec![],
            });
            pool.push(TermDef {
                text: "[A-Z][A-Z0-9_]*".into(),
                quote: Quote::Regex,
                la: None,
                samples: vec!["X".into(), "ID_1".into(), "ZZ".into()],
                states: vec![],
            });
            pool.push(TermDef {
                text: r#"\"[^\"]*\""#.into(),
                quote: Quote::Regex,
                la: None,
                samples: vec!["\"\"".into(), "\"s t\"".into()],
                states: vec![],
            });
            rng.shuffle(&mut pool);
            pool.truncate(n);
            pool
        }
        Terms::NameClash => {
            let mk = |text: &str, quote: Quote| TermDef { text: text.into(), quote, la: None, samples: vec!["x".into()], states: vec![] };
            let mut pool = vec![
                mk("+", Quote::Raw), mk("\\+", Quote::Legacy), mk("[+]", Quote::Regex), mk("a|b", Quote::Raw), mk("a\\|b", Quote::Legacy),
                mk("0", Quote::Raw), mk("1a", Quote::Raw), mk("\u{e9}", Quote::Raw), mk("\u{2211}", Quote::Raw), mk("if", Quote::Raw), mk("if", Quote::Legacy),
                mk("_", Quote::Raw), mk("__", Quote::Raw), mk("Plus", Quote::Raw), mk("plus", Quote::Raw), mk("PLUS", Quote::Legacy), mk("self", Quote::Raw),
                mk("type", Quote::Raw), mk("[+][+]", Quote::Legacy), mk("-", Quote::Raw), mk("\\-", Quote::Regex), mk("::", Quote::Raw), mk(";", Quote::Raw),
                mk("Error", Quote::Raw), mk("EndOfInput", Quote::Raw), mk("Newline", Quote::Raw), mk("[a-z]+", Quote::Regex), mk("[a-z]*", Quote::Regex),
            ];
            if rng.chance(1, 3) {
                // one family of texts that all want the same generated name, numbered variants in
                // any order (A1 before A0 before A ...)
                let fam: &[&str] = *rng.pick(&[
                    &["A", "a", "A0", "A1", "A2", "a0", "a1", "_a", "A_", "a_0"][..],
                    &["Plus", "plus", "PLUS", "Plus0", "Plus1", "plus0", "+", "plus_0", "Plus2"][..],
                    &["if", "If", "IF", "If0", "if0", "If1", "r#if"][..],
                ]);
                pool = fam.iter().map(|t| mk(t, Quote::Raw)).collect();
            } else if rng.chance(1, 3) {
                // terminals whose text is a Rust keyword
                pool = RUST_KEYWORDS.iter().map(|t| mk(t, Quote::Raw)).collect();
            }
            rng.shuffle(&mut pool);
            let mut out: Vec<TermDef> = vec![];
            for t in pool {
                if out.len() < n && !out.iter().any(|o| o.identity() == t.identity()) {
                    out.push(t);
                }
            }
            out
        }
        Terms::Quoting => {
            // groups of terminals with equal text and different quoting style
            let groups: Vec<Vec<TermDef>> = vec![
                vec![
                    TermDef {
                        text: "a+".into(),
                        quote: Quote::Raw,
                        la: None,
                        samples: vec!["a+".into()],
                        states: vec![],
                    },
                    TermDef {
                        text: "a+".into(),
                        quote: Quote::Legacy,
                        la: None,
                        samples: vec!["a".into(), "aaa".into()],
                        states: vec![],
                    },
                ],
                vec![
                    TermDef {
                        text: "b".into(),
                        quote: Quote::Raw,
                        la: None,
                        samples: vec!["b".into()],
                        states: vec![],
                    },
                    TermDef {
                        text: "b".into(),
                        quote: Quote::Legacy,
                        la: None,
                        samples: vec!["b".into()],
                        states: vec![],
                    },
                    TermDef {
                        text: "b".into(),
                        quote: Quote::Regex,
                        la: None,
                        samples: vec!["b".into()],
                        states: vec![],
                    },
                ],
                vec![
                    TermDef {
                        text: "x.y".into(),
                        quote: Quote::Raw,
                        la: None,
                        samples: vec!["x.y".into()],
                        states: vec![],
                    },
                    TermDef {
                        text: "x.y".into(),
                        quote: Quote::Regex,
                        la: None,
                        samples: vec!["xzy".into(), "x-y".into()],
                        states: vec![],
                    },
                ],
                vec![
                    TermDef {
                        text: "c|d".into(),
                        quote: Quote::Raw,
                        la: None,
                        samples: vec!["c|d".into()],
                        states: vec![],
                    },
                    TermDef {
                        text: "c|d".into(),
                        quote: Quote::Legacy,
                        la: None,
                        samples: vec!["c".into(), "d".into()],
                        states: vec![],
                    },
                ],
                vec![
                    TermDef {
                        text: "[e]".into(),
                        quote: Quote::Raw,
                        la: None,
                        samples: vec!["[e]".into()],
                        states: vec![],
                    },
                    TermDef {
                        text: "[e]".into(),
                        quote: Quote::Regex,
                        la: None,
                        samples: vec!["e".into()],
                        states: vec![],
                    },
                ],
            ];
            let mut groups = groups;
            // twins that differ only in their lookahead (polarity, pattern, none)
            let la = |positive: bool, text: &str| Some(Lookahead { positive, text: text.into(), quote: Quote::Legacy });
            let mkla = |text: &str, l: Option<Lookahead>| TermDef { text: text.into(), quote: Quote::Legacy, la: l, samples: vec![text.into()], states: vec![] };
            groups.push(vec![mkla("x", la(true, "y")), mkla("x", la(false, "y")), mkla("x", None)]);
            groups.push(vec![mkla("z", la(true, "q")), mkla("z", la(true, "r")), mkla("z", la(false, "q"))]);
            let mut gi: Vec<usize> = (0..groups.len()).collect();
            rng.shuffle(&mut gi);
            let mut out: Vec<TermDef> = vec![];
            for g in gi {
                let mut grp = groups[g].clone();
                rng.shuffle(&mut grp);
                for t in grp {
                    if out.len() < n {
                        out.push(t);
                    }
                }
            }
            for t in [";", ","] {
                if out.len() < n || rng.chance(1, 3) {
                    out.push(TermDef::raw(t));
                }
            }
            rng.shuffle(&mut out);
            out
        }
    }
}

struct Ctx<'a> {
    rng: &'a mut Rng,
    p: &'a Profile,
    names: Vec<String>,
    nterms: usize,
}

impl Ctx<'_> {
    fn ctl(&mut self) -> AstCtl {
        AstCtl {
            clip: self.p.p_clip > 0 && self.rng.chance(self.p.p_clip, 100),
            ..Default::default()
        }
    }
    fn term(&mut self) -> Factor {
        let t = self.rng.below(self.nterms);
        let c = self.ctl();
        Factor::T(t, c)
    }
    /// a symbol for non-terminal `cur` at sequence position `pos`; `base` = must terminate
    fn symbol(&mut self, cur: usize, pos: usize, base: bool) -> Factor {
        let n = self.names.len();
        let want_nt = self.rng.chance(45, 100);
        if want_nt {
            let forward: Vec<usize> = (cur + 1..n).collect();
            let back_ok = !base
                && self.rng.chance(self.p.p_back, 100)
                && (pos > 0 || self.p.left_rec)
                && (cur > 0 || self.p.recursive_start || self.p.left_rec);
            if back_ok {
                let lo = if self.p.recursive_start { 0 } else { 1.min(cur) };
                let j = self.rng.range(lo.min(cur), cur);
                if j > 0 || self.p.recursive_start {
                    let c = self.ctl();
                    return Factor::N(self.names[j].clone(), c);
                }
            }
            if !forward.is_empty() {
                let j = *self.rng.pick(&forward);
                let c = self.ctl();
                return Factor::N(self.names[j].clone(), c);
            }
        }
        self.term()
    }
    fn seq(&mut self, cur: usize, depth: usize, base: bool, min_len: usize, first_pos: usize) -> Vec<Factor> {
        let max_len = if depth == 0 { self.p.max_seq } else { (self.p.max_seq.saturating_sub(depth + 1)).max(1) };
        let len = self.rng.range(min_len, max_len.max(min_len));
        let mut v = vec![];
        for i in 0..len {
            let pos = first_pos + i;
            if depth < self.p.nest && self.rng.chance(self.p.p_ebnf / (depth + 1), 100) {
                let alts = self.alts(cur, depth + 1, base, pos);
                v.push(match self.rng.below(3) {
                    0 => Factor::Grp(alts),
                    1 => Factor::Opt(alts),
                    _ => Factor::Rep(alts),
                });
            } else {
                v.push(self.symbol(cur, pos, base));
            }
        }
        v
    }
    fn alts(&mut self, cur: usize, depth: usize, base: bool, first_pos: usize) -> Alts {
        let n = self.rng.range(1, 2.min(self.p.max_alts));
        let mut out = vec![];
        for _ in 0..n {
            // inner alternatives are non-empty except with a small chance
            let min_len = if n > 1 && self.rng.chance(self.p.p_empty_alt / 4, 100) { 0 } else { 1 };
            out.push(self.seq(cur, depth, base, min_len, first_pos));
        }
        out
    }
}

pub fn gen_grammar(rng: &mut Rng, p: &Profile) -> Grammar {
    let n = rng.range(p.n_nts.0, p.n_nts.1);
    let names: Vec<String> = match p.names {
        Names::Plain => PLAIN_NAMES.iter().take(n).map(|s| s.to_string()).collect(),
        Names::Idents => {
            let mut pool: Vec<String> = IDENT_NAMES.iter().map(|s| s.to_string()).collect();
            if rng.chance(1, 2) {
                // keywords as written and capitalised (Return, Ref, ...)
                pool = RUST_KEYWORDS
                    .iter()
                    .filter(|k| **k != "Self" && **k != "self" && **k != "crate" && **k != "super")
                    .flat_map(|k| {
                        let mut c = k.chars();
                        let cap = c.next().map(|f| f.to_uppercase().collect::<String>() + c.as_str()).unwrap_or_default();
                        [k.to_string(), cap]
                    })
                    .collect();
                pool.sort();
                pool.dedup();
            }
            rng.shuffle(&mut pool);
            let mut v = vec!["S".to_string()];
            for name in pool {
                if v.len() >= n {
                    break;
                }
                if !v.contains(&name) {
                    v.push(name);
                }
            }
            v
        }
        Names::Clash => {
            let mut pool: Vec<&str> = CLASH_NAMES[1..].to_vec();
            rng.shuffle(&mut pool);
            let mut v = vec!["S".to_string()];
            v.extend(pool.into_iter().take(n - 1).map(|s| s.to_string()));
            v
        }
    };
    let nt = rng.range(p.n_terms.0, p.n_terms.1);
    let terms = gen_terms(rng, p.terms, nt);
    let nterms = terms.len();
    let mut g = Grammar::new(&names[0], p.gtype);
    g.terms = terms;
    g.explicit_type = rng.chance(1, 4);
    let mut cx = Ctx {
        rng,
        p,
        names: names.clone(),
        nterms,
    };
    for i in 0..n {
        let mut nalts = cx.rng.range(1, p.max_alts);
        if i == 0 && p.single_start {
            nalts = 1;
        }
        let guarded = cx.rng.chance(p.p_guard, 100);
        let mut guards: Vec<usize> = (0..nterms).collect();
        cx.rng.shuffle(&mut guards);
        if guarded {
            nalts = nalts.min(nterms);
        }
        let mut alts: Alts = vec![];
        for a in 0..nalts {
            let base = a == 0;
            let empty = a > 0 && cx.rng.chance(p.p_empty_alt, 100);
            if empty {
                alts.push(vec![]);
                continue;
            }
            if a > 0 && p.p_shared_prefix > 0 && cx.rng.chance(p.p_shared_prefix, 100) {
                // copy a prefix of a sibling and continue differently
                let sib = cx.rng.below(alts.len());
                let src = alts[sib].clone();
                if !src.is_empty() {
                    let take = cx.rng.range(1, src.len());
                    let mut v: Vec<Factor> = src[..take].to_vec();
                    let tail = cx.seq(i, 0, base, 0, take);
                    v.extend(tail);
                    alts.push(v);
                    continue;
                }
            }
            let mut v = vec![];
            if guarded {
                v.push(Factor::T(guards[a], AstCtl::default()));
                v.extend(cx.seq(i, 0, base, 0, 1));
            } else {
                v = cx.seq(i, 0, base, if base { 1 } else { 0 }, 0);
            }
            alts.push(v);
        }
        if i == 0 && p.recursive_start {
            // make sure the start symbol occurs on a right-hand side of its own rule(s)
            let which = cx.rng.below(alts.len());
            let s = Factor::N(names[0].clone(), AstCtl::default());
            if alts.len() == 1 {
                // S: x [S] ;   or   S: x { y S } ;  keep productive
                let inner = vec![vec![s]];
                alts[0].push(if cx.rng.chance(1, 2) {
                    Factor::Opt(inner)
                } else {
                    Factor::Grp(vec![inner[0].clone(), vec![cx.term()]])
                });
            } else if which == 0 {
                let last = alts.len() - 1;
                if alts[last].is_empty() {
                    alts[last].push(cx.term());
                }
                alts[last].push(s);
            } else {
                if p.left_rec && cx.rng.chance(1, 2) {
                    alts[which].insert(0, s);
                    if alts[which].len() == 1 {
                        let t = cx.term();
                        alts[which].push(t);
                    }
                } else {
                    if alts[which].is_empty() {
                        let t = cx.term();
                        alts[which].push(t);
                    }
                    alts[which].push(s);
                }
            }
        }
        g.rules.push(Rule {
            name: names[i].clone(),
            alts,
        });
    }
    // reachability: every non-terminal i>0 must be referenced from a lower one
    for i in 1..n {
        let mut referenced = false;
        fn refs(alts: &Alts, n: &str) -> bool {
            alts.iter().any(|a| {
                a.iter().any(|f| match f {
                    Factor::N(m, _) => m == n,
                    Factor::Grp(x) | Factor::Opt(x) | Factor::Rep(x) => refs(x, n),
                    _ => false,
                })
            })
        }
        for j in 0..i {
            if refs(&g.rules[j].alts, &names[i]) {
                referenced = true;
                break;
            }
        }
        if !referenced {
            let j = cx.rng.below(i);
            let a = cx.rng.below(g.rules[j].alts.len());
            let f = Factor::N(names[i].clone(), AstCtl::default());
            let alt = &mut g.rules[j].alts[a];
            if alt.is_empty() {
                alt.push(f);
            } else {
                let pos = cx.rng.range(1.min(alt.len()), alt.len());
                alt.insert(pos, f);
            }
        }
    }
    if n > 1 && cx.rng.chance(p.p_shuffle, 100) {
        cx.rng.shuffle(&mut g.rules);
    }
    g
}

// ------------------------------------------------------------------------------------------
// Inputs
// ------------------------------------------------------------------------------------------

/// Random derivation of the BNF with a size budget; returns terminal ids.
pub fn random_sentence(b: &Bnf, rng: &mut Rng, budget: usize) -> Option<Vec<usize>> {
    // min length per non-terminal to steer towards termination
    let n = b.nts.len();
    let mut minlen: Vec<Option<usize>> = vec![None; n];
    loop {
        let mut ch = false;
        for (l, rhs) in &b.prods {
            let mut tot = Some(0usize);
            for s in rhs {
                tot = match (tot, s) {
                    (Some(t), Sym::T(_)) => Some(t + 1),
                    (Some(t), Sym::N(m)) => minlen[*m].map(|x| x + t),
                    _ => None,
                };
            }
            if let Some(t) = tot {
                if minlen[*l].is_none_or(|x| t < x) {
                    minlen[*l] = Some(t);
                    ch = true;
                }
            }
        }
        if !ch {
            break;
        }
    }
    minlen[b.start]?;
    let prod_min = |rhs: &Vec<Sym>| -> Option<usize> {
        let mut t = 0;
        for s in rhs {
            match s {
                Sym::T(_) => t += 1,
                Sym::N(m) => t += minlen[*m]?,
            }
        }
        Some(t)
    };
    let mut out = vec![];
    let mut stack: Vec<Sym> = vec![Sym::N(b.start)];
    let mut steps = 0;
    while let Some(s) = stack.pop() {
        steps += 1;
        if steps > 20000 {
            return None;
        }
        match s {
            Sym::T(t) => out.push(t),
            Sym::N(a) => {
                let cands: Vec<&Vec<Sym>> = b.prods_of(a).map(|(_, r)| r).collect();
                let viable: Vec<&Vec<Sym>> =
                    cands.iter().cloned().filter(|r| prod_min(r).is_some()).collect();
                if viable.is_empty() {
                    return None;
                }
                let pending: usize = stack
                    .iter()
                    .map(|s| match s {
                        Sym::T(_) => 1,
                        Sym::N(m) => minlen[*m].unwrap_or(0),
                    })
                    .sum();
                let over = out.len() + pending >= budget;
                let chosen = if over {
                    // take a minimal production
                    *viable.iter().min_by_key(|r| prod_min(r).unwrap()).unwrap()
                } else {
                    *rng.pick(&viable)
                };
                for s in chosen.iter().rev() {
                    stack.push(*s);
                }
            }
        }
        if out.len() > budget * 4 + 50 {
            return None;
        }
    }
    Some(out)
}

/// Random derivation of the grammar *as written* (EBNF), keeping for every token whether it is
/// visible in the typed AST: a token is hidden when its own occurrence is clipped or when it was
/// derived below a clipped non-terminal occurrence. Returns (terminal id, visible).
pub fn random_derivation(g: &Grammar, rng: &mut Rng, budget: usize) -> Option<Vec<(usize, bool)>> {
    // minimal yield length per rule (None = unproductive), fixpoint over the EBNF structure
    let names = g.nt_names();
    let idx = |n: &str| names.iter().position(|x| x == n);
    let mut minlen: Vec<Option<usize>> = vec![None; names.len()];
    fn seq_min(seq: &Vec<Factor>, minlen: &[Option<usize>], idx: &dyn Fn(&str) -> Option<usize>) -> Option<usize> {
        let mut total = 0usize;
        for f in seq {
            total += match f {
                Factor::T(..) => 1,
                Factor::N(n, _) => minlen[idx(n.as_str())?]?,
                Factor::Grp(a) => alts_min(a, minlen, idx)?,
                Factor::Opt(_) | Factor::Rep(_) => 0,
            };
        }
        Some(total)
    }
    fn alts_min(alts: &Alts, minlen: &[Option<usize>], idx: &dyn Fn(&str) -> Option<usize>) -> Option<usize> {
        alts.iter().filter_map(|a| seq_min(a, minlen, idx)).min()
    }
    loop {
        let mut changed = false;
        for (i, n) in names.iter().enumerate() {
            let mut best: Option<usize> = None;
            for r in g.rules.iter().filter(|r| r.name == *n) {
                if let Some(m) = alts_min(&r.alts, &minlen, &idx) {
                    best = Some(best.map_or(m, |b: usize| b.min(m)));
                }
            }
            if best.is_some() && (minlen[i].is_none() || best < minlen[i]) {
                minlen[i] = best;
                changed = true;
            }
        }
        if !changed {
            break;
        }
    }
    struct Cx<'a> {
        g: &'a Grammar,
        names: &'a [String],
        minlen: &'a [Option<usize>],
        budget: usize,
        out: Vec<(usize, bool)>,
        steps: usize,
    }
    fn pick_alt<'b>(cx: &mut Cx, rng: &mut Rng, alts: &'b Alts) -> Option<&'b Vec<Factor>> {
        let idx = |n: &str| cx.names.iter().position(|x| x == n);
        let viable: Vec<(&Vec<Factor>, usize)> = alts.iter().filter_map(|a| seq_min(a, cx.minlen, &idx).map(|m| (a, m))).collect();
        if viable.is_empty() {
            return None;
        }
        if cx.out.len() >= cx.budget {
            viable.iter().min_by_key(|(_, m)| *m).map(|(a, _)| *a)
        } else {
            Some(viable[rng.below(viable.len())].0)
        }
    }
    fn expand_alts(cx: &mut Cx, rng: &mut Rng, alts: &Alts, hidden: bool) -> Option<()> {
        let alt = pick_alt(cx, rng, alts)?.clone();
        for f in &alt {
            cx.steps += 1;
            if cx.steps > 20000 {
                return None;
            }
            match f {
                Factor::T(t, c) => cx.out.push((*t, !(hidden || c.clip))),
                Factor::N(n, c) => {
                    let rule_alts: Alts = cx.g.rules.iter().filter(|r| r.name == *n).flat_map(|r| r.alts.clone()).collect();
                    expand_alts(cx, rng, &rule_alts, hidden || c.clip)?;
                }
                Factor::Grp(a) => expand_alts(cx, rng, a, hidden)?,
                Factor::Opt(a) => {
                    if cx.out.len() < cx.budget && rng.chance(1, 2) {
                        expand_alts(cx, rng, a, hidden)?;
                    }
                }
                Factor::Rep(a) => {
                    while cx.out.len() < cx.budget && rng.chance(3, 5) {
                        let before = cx.out.len();
                        expand_alts(cx, rng, a, hidden)?;
                        if cx.out.len() == before {
                            break;
                        }
                    }
                }
            }
        }
        Some(())
    }
    let start_alts: Alts = g.rules.iter().filter(|r| r.name == g.start).flat_map(|r| r.alts.clone()).collect();
    let mut cx = Cx { g, names: &names, minlen: &minlen, budget, out: vec![], steps: 0 };
    expand_alts(&mut cx, rng, &start_alts, false)?;
    if cx.out.len() > budget * 4 + 50 {
        return None;
    }
    Some(cx.out)
}

/// All strings over 0..alphabet up to length max_len, capped.
pub fn all_strings(alphabet: usize, max_len: usize, cap: usize) -> Vec<Vec<usize>> {
    let mut out: Vec<Vec<usize>> = vec![vec![]];
    let mut frontier: Vec<Vec<usize>> = vec![vec![]];
    for _ in 0..max_len {
        let mut next = vec![];
        for w in &frontier {
            for a in 0..alphabet {
                let mut w2 = w.clone();
                w2.push(a);
                next.push(w2);
            }
        }
        if out.len() + next.len() > cap {
            break;
        }
        out.extend(next.iter().cloned());
        frontier = next;
    }
    out
}

pub fn mutate(w: &[usize], alphabet: usize, rng: &mut Rng) -> Vec<usize> {
    let mut v = w.to_vec();
    let ops = rng.range(1, 2);
    for _ in 0..ops {
        match rng.below(6) {
            0 if !v.is_empty() => {
                let i = rng.below(v.len());
                v.remove(i);
            }
            1 => {
                let i = rng.below(v.len() + 1);
                v.insert(i, rng.below(alphabet));
            }
            2 if !v.is_empty() => {
                let i = rng.below(v.len());
                v[i] = rng.below(alphabet);
            }
            3 if v.len() >= 2 => {
                let i = rng.below(v.len() - 1);
                v.swap(i, i + 1);
            }
            4 if !v.is_empty() => {
                let i = rng.below(v.len());
                v.truncate(i);
            }
            5 if !v.is_empty() => {
                let i = rng.below(v.len());
                let x = v[i];
                v.insert(i, x);
            }
            _ => {
                v.push(rng.below(alphabet));
            }
        }
    }
    v
}

/// Render a terminal-id string as text. Ids >= terms.len() are foreign lexemes.
pub const FOREIGN: [&str; 3] = ["#", "@@", "~"];

/// A noise terminal '~' that the INITIAL state lists in %skip (see `add_skip_noise`).
pub const NOISE: &str = "~";

/// Adds `Noise: '~';` and `%skip Noise` for the INITIAL state: a token that the scanner delivers
/// and every parser has to ignore (state-specific skip list).
pub fn add_skip_noise(g: &mut Grammar) {
    if g.terms.iter().any(|t| t.text == NOISE) || g.rules.iter().any(|r| r.name == "Noise") {
        return;
    }
    g.terms.push(TermDef::raw(NOISE));
    let ti = g.terms.len() - 1;
    g.rules.push(Rule { name: "Noise".into(), alts: vec![vec![Factor::T(ti, AstCtl::default())]] });
    g.states[0].skip.push("Noise".into());
}

pub fn render_tokens(g: &Grammar, w: &[usize], rng: &mut Rng, varied_ws: bool) -> String {
    let mut s = String::new();
    let noisy = varied_ws && g.states[0].skip.iter().any(|n| n == "Noise");
    if noisy && rng.chance(1, 3) {
        s.push_str("~ ");
    }
    for (i, t) in w.iter().enumerate() {
        if i > 0 {
            if varied_ws {
                s.push_str(*rng.pick(&[" ", "  ", "\n", "\t", " \n ", "\r\n"]));
            } else {
                s.push(' ');
            }
            if noisy && rng.chance(1, 3) {
                s.push_str("~ ");
                if rng.chance(1, 4) {
                    s.push_str("~~ ");
                }
            }
        }
        if *t < g.terms.len() {
            let td = &g.terms[*t];
            s.push_str(rng.pick(&td.samples[..]).as_str());
        } else {
            s.push_str(FOREIGN[(*t - g.terms.len()) % FOREIGN.len()]);
        }
    }
    if noisy && rng.chance(1, 3) {
        s.push_str(" ~");
    }
    s
}

// ------------------------------------------------------------------------------------------
// LR templates: classic LALR(1) building blocks (left-recursive lists, precedence levels) and
// classic non-LALR(1) grammars, with random terminals.
// ------------------------------------------------------------------------------------------

fn t(i: usize) -> Factor {
    Factor::T(i, AstCtl::default())
}
fn nt(n: &str) -> Factor {
    Factor::N(n.to_string(), AstCtl::default())
}

/// conflict-free by construction (modulo generator slips - parol's verdict decides)
pub fn gen_lr_template(rng: &mut Rng) -> Grammar {
    let mut g = Grammar::new("S", GType::LALR);
    g.terms = gen_terms(rng, Terms::Letters, 8);
    let mut rules: Vec<Rule> = vec![];
    match rng.below(5) {
        0 => {
            // expression grammar with 1-3 precedence levels
            let levels = rng.range(1, 3);
            let names = ["E", "T", "F", "P"];
            rules.push(Rule { name: "S".into(), alts: vec![vec![nt("E")]] });
            for l in 0..levels {
                let me = names[l];
                let next = names[l + 1];
                let left = rng.chance(2, 3);
                let rec = if left { vec![nt(me), t(l), nt(next)] } else { vec![nt(next), t(l), nt(me)] };
                let mut alts = vec![rec, vec![nt(next)]];
                if rng.chance(1, 3) {
                    alts.insert(1, if left { vec![nt(me), t(l + 4), nt(next)] } else { vec![nt(next), t(l + 4), nt(me)] });
                }
                rules.push(Rule { name: me.into(), alts });
            }
            let atom = names[levels];
            let mut alts = vec![vec![t(3)]];
            if rng.chance(2, 3) {
                alts.push(vec![t(6), nt("E"), t(7)]);
            }
            rules.push(Rule { name: atom.into(), alts });
        }
        1 => {
            // left-recursive list with separator, optional trailing part
            let sep = rng.chance(1, 2);
            let mut rec = vec![nt("L")];
            if sep {
                rec.push(t(0));
            }
            rec.push(nt("I"));
            rules.push(Rule { name: "S".into(), alts: vec![vec![t(5), nt("L"), t(6)]] });
            rules.push(Rule { name: "L".into(), alts: vec![rec, vec![nt("I")]] });
            let mut ialts = vec![vec![t(1)], vec![t(2), Factor::Opt(vec![vec![t(3)]])]];
            if rng.chance(1, 2) {
                ialts.push(vec![t(5), nt("L"), t(6)]);
            }
            rules.push(Rule { name: "I".into(), alts: ialts });
        }
        2 => {
            // recursive start symbol: S: a [S] ; / S: S a | b ; / S: ( S ) S | ;
            match rng.below(3) {
                0 => rules.push(Rule { name: "S".into(), alts: vec![vec![t(0), Factor::Opt(vec![vec![nt("S")]])]] }),
                1 => rules.push(Rule { name: "S".into(), alts: vec![vec![nt("S"), t(0)], vec![t(1)]] }),
                _ => rules.push(Rule { name: "S".into(), alts: vec![vec![t(0), nt("S"), t(1), nt("S")], vec![]] }),
            }
        }
        3 => {
            // nullable left-recursive repetition and EBNF
            rules.push(Rule { name: "S".into(), alts: vec![vec![nt("A"), Factor::Rep(vec![vec![t(0), nt("A")]]), Factor::Opt(vec![vec![t(1)]])]] });
            rules.push(Rule { name: "A".into(), alts: vec![vec![nt("A"), t(2)], vec![t(3)], vec![t(4), nt("S"), t(5)]] });
        }
        _ => {
            // statements
            rules.push(Rule { name: "S".into(), alts: vec![vec![nt("S"), nt("St")], vec![nt("St")]] });
            rules.push(Rule { name: "St".into(), alts: vec![vec![t(0), t(1), nt("Ex"), t(2)], vec![t(3), nt("S"), t(4)]] });
            rules.push(Rule { name: "Ex".into(), alts: vec![vec![nt("Ex"), t(5), t(0)], vec![t(0)]] });
        }
    }
    g.rules = rules;
    g
}

/// classic grammars that are not LALR(1)
pub fn gen_non_lalr_template(rng: &mut Rng) -> Grammar {
    let mut g = Grammar::new("S", GType::LALR);
    g.terms = gen_terms(rng, Terms::Letters, 8);
    let rules = match rng.below(5) {
        0 => vec![
            // dangling else
            Rule { name: "S".into(), alts: vec![vec![t(0), nt("S")], vec![t(0), nt("S"), t(1), nt("S")], vec![t(2)]] },
        ],
        1 => vec![
            // ambiguous expression
            Rule { name: "S".into(), alts: vec![vec![nt("E")]] },
            Rule { name: "E".into(), alts: vec![vec![nt("E"), t(0), nt("E")], vec![t(1)]] },
        ],
        2 => vec![
            // LR(1) but not LALR(1)
            Rule { name: "S".into(), alts: vec![vec![t(0), nt("A"), t(3)], vec![t(1), nt("B"), t(3)], vec![t(0), nt("B"), t(4)], vec![t(1), nt("A"), t(4)]] },
            Rule { name: "A".into(), alts: vec![vec![t(2)]] },
            Rule { name: "B".into(), alts: vec![vec![t(2)]] },
        ],
        3 => vec![
            // reduce/reduce on shared handle
            Rule { name: "S".into(), alts: vec![vec![nt("A"), t(0)], vec![nt("B"), t(0)]] },
            Rule { name: "A".into(), alts: vec![vec![t(1)]] },
            Rule { name: "B".into(), alts: vec![vec![t(1)]] },
        ],
        _ => vec![
            // repetition of an optional (infinitely ambiguous)
            Rule { name: "S".into(), alts: vec![vec![t(0), Factor::Rep(vec![vec![Factor::Opt(vec![vec![t(1)]])]])]] },
        ],
    };
    g.rules = rules;
    g
}

/// Render a token string with varied skip material (G-in (e)): spaces, tabs, line breaks of all
/// three forms, non-ASCII whitespace, comments (if the grammar declares them), junk (if the
/// INITIAL state allows unmatched text), leading and trailing material.
pub fn render_rich(g: &Grammar, w: &[usize], rng: &mut Rng) -> String {
    let st = &g.states[0];
    let mut seps: Vec<String> = vec![];
    if st.auto_ws {
        for s in [" ", "  ", "\t", " \t ", "\u{a0}", "\u{2003}"] {
            seps.push(s.to_string());
        }
    }
    if st.auto_nl {
        for s in ["\n", "\r\n", "\r", "\n\n", "\r\n\r\n"] {
            seps.push(s.to_string());
        }
    }
    if st.auto_ws && st.auto_nl {
        for s in [" \n ", "\t\r\n\t", " \r "] {
            seps.push(s.to_string());
        }
    }
    for (lc, _) in &st.line_comments {
        if st.auto_nl || true {
            seps.push(format!(" {lc} comment \u{e9}\u{4e16} x\n"));
            seps.push(format!("{lc}\r\n"));
            seps.push(format!(" {lc} c\n{lc} d\n"));
        }
    }
    for ((s, _), (e, _)) in &st.block_comments {
        seps.push(format!(" {s} b \u{e9} {e} "));
        seps.push(format!("{s}{e}"));
        seps.push(format!(" {s} line1\nline2\r\n {e}\n"));
    }
    if st.allow_unmatched {
        for s in [" # ", " \u{e9}\u{e9} ", "@", " ~~~ "] {
            seps.push(s.to_string());
        }
    }
    if seps.is_empty() {
        seps.push(String::new());
    }
    let must_sep = st.auto_ws || st.auto_nl;
    let mut s = String::new();
    if rng.chance(1, 3) {
        s.push_str(rng.pick(&seps[..]).as_str());
    }
    for (i, t) in w.iter().enumerate() {
        if i > 0 {
            if must_sep {
                // first a guaranteed token separator, then maybe more material
                let first: Vec<&String> = seps.iter().filter(|x| x.starts_with([' ', '\t', '\n', '\r'])).collect();
                if first.is_empty() {
                    s.push_str(rng.pick(&seps[..]).as_str());
                } else {
                    s.push_str(rng.pick(&first[..]).as_str());
                }
                if rng.chance(1, 3) {
                    s.push_str(rng.pick(&seps[..]).as_str());
                }
            } else {
                s.push_str(rng.pick(&seps[..]).as_str());
            }
        }
        if *t < g.terms.len() {
            s.push_str(rng.pick(&g.terms[*t].samples[..]).as_str());
        } else {
            s.push_str(FOREIGN[(*t - g.terms.len()) % FOREIGN.len()]);
        }
    }
    if rng.chance(1, 2) {
        s.push_str(rng.pick(&seps[..]).as_str());
    }
    s
}

/// decorate the INITIAL scanner state of a parser-level grammar with comment declarations etc.
pub fn decorate_scanner(g: &mut Grammar, rng: &mut Rng) {
    // comment delimiters must not collide with terminal texts of the Letters/Mixed pools
    if rng.chance(1, 2) {
        let q = *rng.pick(&[Quote::Raw, Quote::Legacy]);
        g.states[0].line_comments.push(("//".into(), q));
    }
    if rng.chance(1, 2) {
        let q = *rng.pick(&[Quote::Raw, Quote::Legacy]);
        let pair = rng.pick(&[("/*", "*/"), ("{-", "-}"), ("<!--", "-->")]).clone();
        g.states[0].block_comments.push(((pair.0.into(), q), (pair.1.into(), q)));
    }
    if rng.chance(1, 5) {
        g.states[0].allow_unmatched = true;
    }
}

/// Directly nested repetitions (a repetition inside the sequence of another repetition, inside an
/// optional or a group of one), LL(1)-friendly: `S: { 'a' { Id [ 'c' ] } 'd' } ...`.
pub fn gen_nested_rep_template(rng: &mut Rng, gtype: GType) -> Grammar {
    let mut g = Grammar::new("S", gtype);
    let mut letters = vec!["a", "b", "c", "d", "e", "f", "g", "h"];
    rng.shuffle(&mut letters);
    g.terms = letters.iter().take(7).map(|t| TermDef::raw(t)).collect();
    let t = |i: usize| Factor::T(i, AstCtl::default());
    let use_nt = rng.chance(1, 2);
    let item = if use_nt { Factor::N("Id".into(), AstCtl::default()) } else { t(1) };
    // inner repetition body: item, optionally followed by an optional terminal or a second terminal
    let mut inner_seq = vec![item];
    match rng.below(3) {
        0 => inner_seq.push(Factor::Opt(vec![vec![t(2)]])),
        1 => inner_seq.push(t(2)),
        _ => {}
    }
    let inner = Factor::Rep(vec![inner_seq]);
    let wrapped = match rng.below(4) {
        0 => Factor::Grp(vec![vec![inner]]),
        1 => Factor::Opt(vec![vec![t(5), inner]]),
        _ => inner,
    };
    let mut outer_seq = vec![t(0), wrapped];
    if rng.chance(3, 4) {
        outer_seq.push(t(3));
    }
    if rng.chance(1, 3) {
        // a second nested repetition in the same sequence
        outer_seq.push(Factor::Rep(vec![vec![t(6)]]));
        outer_seq.push(t(4));
    }
    let outer = Factor::Rep(vec![outer_seq]);
    let mut s_alt = vec![outer];
    if rng.chance(1, 2) {
        s_alt.push(t(4));
    }
    g.rules.push(Rule { name: "S".into(), alts: vec![s_alt] });
    if use_nt {
        g.rules.push(Rule { name: "Id".into(), alts: vec![vec![t(1)]] });
    }
    g
}

/// LL(k) grammar built from an explicit partition of terminal strings of length k: `S: C1 | C2 | ..;`
/// where each `Ci` lists its strings as alternatives. The lookahead tries of S have inner states
/// with equal terminal sets, equal followers and crossed pairings - the shapes that automaton
/// minimisation has to tell apart. Returns the grammar and the k it needs (at most).
pub fn gen_partition_template(rng: &mut Rng) -> (Grammar, usize) {
    let k = rng.range(2, 3);
    let nsym = if k == 3 { 2 } else { rng.range(2, 3) };
    let nclasses = rng.range(2, 3);
    let mut g = Grammar::new("S", GType::LL);
    let mut letters = vec!["a", "b", "c", "d", "e", "f"];
    rng.shuffle(&mut letters);
    g.terms = letters.iter().take(nsym).map(|t| TermDef::raw(t)).collect();
    let mut strings: Vec<Vec<usize>> = vec![vec![]];
    for _ in 0..k {
        let mut next = vec![];
        for w in &strings {
            for a in 0..nsym {
                let mut w2 = w.clone();
                w2.push(a);
                next.push(w2);
            }
        }
        strings = next;
    }
    let mut classes: Vec<Alts> = vec![vec![]; nclasses];
    for w in strings {
        if rng.chance(1, 5) {
            continue;
        }
        let c = rng.below(nclasses);
        classes[c].push(w.iter().map(|t| Factor::T(*t, AstCtl::default())).collect());
    }
    let mut s_alts: Alts = vec![];
    for (ci, alts) in classes.into_iter().enumerate() {
        if alts.is_empty() {
            continue;
        }
        let name = format!("C{}", ci + 1);
        s_alts.push(vec![Factor::N(name.clone(), AstCtl::default())]);
        g.rules.push(Rule { name, alts });
    }
    if s_alts.is_empty() {
        s_alts.push(vec![Factor::T(0, AstCtl::default())]);
    }
    g.rules.insert(0, Rule { name: "S".into(), alts: s_alts });
    (g, k)
}

/// AST-control attributes on non-terminal occurrences (clip, member name, user type). They have
/// no influence on the language or the tables; transformations must treat a decorated occurrence
/// like a plain one.
pub fn decorate_occurrences(g: &mut Grammar, rng: &mut Rng) {
    fn walk(alts: &mut Alts, rng: &mut Rng, used: &mut usize) {
        for alt in alts.iter_mut() {
            for f in alt.iter_mut() {
                match f {
                    Factor::N(_, c) => match rng.below(8) {
                        0 | 1 => c.clip = true,
                        2 => {
                            *used += 1;
                            c.member = Some(format!("dm{used}"));
                        }
                        3 => c.utype = Some("crate::types::Conv".to_string()),
                        _ => {}
                    },
                    Factor::Grp(a) | Factor::Opt(a) | Factor::Rep(a) => walk(a, rng, used),
                    _ => {}
                }
            }
        }
    }
    let mut used = 0;
    for r in g.rules.iter_mut() {
        walk(&mut r.alts, rng, &mut used);
    }
}

/// AST-control and declaration annotations (member names, user types, %user_type, %nt_type,
/// %t_type, title, comment).
pub fn annotate(g: &mut Grammar, rng: &mut Rng) {
    if rng.chance(1, 2) {
        g.title = Some(rng.pick(&["A title", "x", "Test grammar 1.0", "Gr\\\\u{e9}mmar"]).to_string());
    }
    if rng.chance(1, 2) {
        g.comment = Some(rng.pick(&["a comment", "second \\\"quoted\\\" comment", "c"]).to_string());
    }
    if rng.chance(1, 3) {
        g.user_types.push(("MyNum".into(), "crate::types::Number".into()));
    }
    if rng.chance(1, 4) {
        g.user_types.push(("Other".into(), "other_mod::Other".into()));
    }
    if rng.chance(1, 4) {
        g.t_type = Some("crate::types::MyToken".into());
    }
    let names: Vec<String> = g.nt_names().into_iter().filter(|n| *n != g.start).collect();
    if rng.chance(1, 3) && !names.is_empty() {
        let n = rng.pick(&names[..]).clone();
        g.nt_types.push((n, "crate::types::NtType".into()));
    }
    fn walk(alts: &mut Alts, rng: &mut Rng, has_alias: bool) {
        for alt in alts.iter_mut() {
            let mut used = 0;
            for f in alt.iter_mut() {
                match f {
                    Factor::T(_, c) | Factor::N(_, c) => {
                        if c.clip {
                            continue;
                        }
                        if rng.chance(1, 5) {
                            used += 1;
                            c.member = Some(format!("m{used}"));
                        }
                        if rng.chance(1, 8) {
                            c.utype = Some(if has_alias && rng.chance(1, 2) { "MyNum".to_string() } else { "crate::types::Conv".to_string() });
                        }
                    }
                    Factor::Grp(a) | Factor::Opt(a) | Factor::Rep(a) => walk(a, rng, has_alias),
                }
            }
        }
    }
    let has_alias = g.user_types.iter().any(|(a, _)| a == "MyNum");
    for r in g.rules.iter_mut() {
        walk(&mut r.alts, rng, has_alias);
    }
}
