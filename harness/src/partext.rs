//! G-par-text: token-level and byte-level mutations of PAR texts, token soup.

use crate::prng::Rng;

/// Mini lexer for PAR text (strings, raw strings, regexes, %-keywords, identifiers, comments,
/// punctuation). Good enough to cut a text at token boundaries; never fails.
pub fn lex(text: &str) -> Vec<String> {
    let cs: Vec<char> = text.chars().collect();
    let mut out = vec![];
    let mut i = 0;
    while i < cs.len() {
        let c = cs[i];
        if c.is_whitespace() {
            i += 1;
            continue;
        }
        let start = i;
        if c == '"' || c == '\'' || (c == '/' && i + 1 < cs.len() && cs[i + 1] != '/' && cs[i + 1] != '*') {
            i += 1;
            while i < cs.len() && cs[i] != c {
                if cs[i] == '\\' {
                    i += 1;
                }
                i += 1;
            }
            i = (i + 1).min(cs.len());
        } else if c == '/' && i + 1 < cs.len() && cs[i + 1] == '/' {
            while i < cs.len() && cs[i] != '\n' {
                i += 1;
            }
        } else if c == '/' && i + 1 < cs.len() && cs[i + 1] == '*' {
            i += 2;
            while i + 1 < cs.len() && !(cs[i] == '*' && cs[i + 1] == '/') {
                i += 1;
            }
            i = (i + 2).min(cs.len());
        } else if c == '%' {
            i += 1;
            while i < cs.len() && (cs[i].is_alphanumeric() || cs[i] == '_' || cs[i] == '%') {
                i += 1;
            }
        } else if c.is_alphanumeric() || c == '_' {
            while i < cs.len() && (cs[i].is_alphanumeric() || cs[i] == '_') {
                i += 1;
            }
        } else if (c == ':' && i + 1 < cs.len() && cs[i + 1] == ':') || (c == '?' && i + 1 < cs.len() && (cs[i + 1] == '=' || cs[i + 1] == '!')) {
            i += 2;
        } else {
            i += 1;
        }
        out.push(cs[start..i].iter().collect());
    }
    out
}

pub const VOCAB: [&str; 76] = [
    "%start", "%title", "%comment", "%grammar_type", "%line_comment", "%block_comment", "%auto_newline_off", "%auto_ws_off",
    "%skip", "%on", "%enter", "%push", "%pop", "%allow_unmatched", "%user_type", "%nt_type", "%t_type", "%scanner", "%%", "::",
    ":", ";", "|", "<", ">", "(", ")", "[", "]", "{", "}", ",", "@", "^", "=", "?=", "?!", "S", "A", "B", "INITIAL", "M1", "T0",
    "\"a\"", "'b'", "/c/", "'ll(k)'", "'lalr(1)'", "\"//\"", "'/*'", "'*/'", "\"x\\\"y\"", "// c\n", "/* c */", "x_1", "Self", "crate", "my", "\"[a-z]+\"", "'%'",
    // identifiers and separators outside ASCII (word characters of other scripts, digits, marks)
    // literals that end in a backslash / an escaped backslash (scanner and delimiter edge cases)
    "\"\\*\\\"", "\"\\\\\"", "\"C:\\\"", "'\\'", "/\\//", "\"\\(\\*\"",
    "Gr\u{f6}\u{df}e", "x\u{e9}", "a\u{661}", "_\u{4e16}", "\u{e9}", "n\u{2167}", "a\u{301}b", "\u{a0}", "A\u{130}", "\u{2028}",
];

pub fn join(tokens: &[String]) -> String {
    let mut s = String::new();
    for (i, t) in tokens.iter().enumerate() {
        if i > 0 {
            s.push(' ');
        }
        s.push_str(t);
        if t.starts_with("//") && !t.ends_with('\n') {
            s.push('\n');
        }
    }
    s
}

/// one token-level mutation: delete / insert / replace / swap / duplicate
pub fn mutate_tokens(tokens: &[String], rng: &mut Rng) -> Vec<String> {
    let mut v = tokens.to_vec();
    let n = rng.range(1, 2);
    for _ in 0..n {
        match rng.below(5) {
            0 if !v.is_empty() => {
                let i = rng.below(v.len());
                v.remove(i);
            }
            1 => {
                let i = rng.below(v.len() + 1);
                v.insert(i, rng.pick(&VOCAB).to_string());
            }
            2 if !v.is_empty() => {
                let i = rng.below(v.len());
                v[i] = rng.pick(&VOCAB).to_string();
            }
            3 if v.len() >= 2 => {
                let i = rng.below(v.len() - 1);
                v.swap(i, i + 1);
            }
            _ if !v.is_empty() => {
                let i = rng.below(v.len());
                let x = v[i].clone();
                v.insert(i, x);
            }
            _ => v.push(rng.pick(&VOCAB).to_string()),
        }
    }
    v
}

/// character-level mutation: one non-ASCII character (letter, digit, mark, space, joiner of another
/// script) inserted at a random character position, preferably next to an identifier character
pub fn mutate_unicode(text: &str, rng: &mut Rng) -> String {
    let cs: Vec<char> = text.chars().collect();
    let ins = *rng.pick(&['\u{e9}', '\u{f6}', '\u{661}', '\u{301}', '\u{4e16}', '\u{a0}', '\u{2028}', '\u{df}', '\u{130}', '\u{1c5}', '\u{200d}', '\u{2167}', '\u{1f600}']);
    let cands: Vec<usize> = (0..=cs.len()).filter(|i| (*i > 0 && (cs[*i - 1].is_ascii_alphanumeric() || cs[*i - 1] == '_')) || (*i < cs.len() && cs[*i].is_ascii_alphabetic())).collect();
    let pos = if !cands.is_empty() && rng.chance(4, 5) { *rng.pick(&cands[..]) } else { rng.below(cs.len() + 1) };
    let mut out: String = cs[..pos].iter().collect();
    out.push(ins);
    out.extend(cs[pos..].iter());
    out
}

pub fn soup(rng: &mut Rng, max: usize) -> String {
    let n = rng.range(0, max);
    let v: Vec<String> = (0..n).map(|_| rng.pick(&VOCAB).to_string()).collect();
    join(&v)
}

pub fn mutate_bytes(text: &str, rng: &mut Rng) -> String {
    let mut b = text.as_bytes().to_vec();
    for _ in 0..rng.range(1, 4) {
        match rng.below(5) {
            0 if !b.is_empty() => {
                let i = rng.below(b.len());
                b.remove(i);
            }
            1 => {
                let i = rng.below(b.len() + 1);
                b.insert(i, *rng.pick(b"%'\"/\\{}[]()<>|;:@^=?!,a0 \n\t\x00\xff\xc3"));
            }
            2 if !b.is_empty() => {
                let i = rng.below(b.len());
                b[i] = rng.below(256) as u8;
            }
            3 if !b.is_empty() => {
                let i = rng.below(b.len());
                b.truncate(i);
            }
            _ if b.len() > 4 => {
                let i = rng.below(b.len() - 2);
                let j = rng.range(i + 1, (i + 8).min(b.len()));
                let seg: Vec<u8> = b[i..j].to_vec();
                let k = rng.below(b.len());
                for (o, x) in seg.into_iter().enumerate() {
                    b.insert(k + o, x);
                }
            }
            _ => {}
        }
    }
    String::from_utf8_lossy(&b).into_owned()
}

/// Tokens with (line, column-in-chars, text); same tokenization as `lex`.
pub fn lex_spans(text: &str) -> Vec<(u64, u64, String)> {
    let cs: Vec<char> = text.chars().collect();
    let mut out = vec![];
    let mut i = 0;
    let (mut line, mut col) = (0u64, 0u64);
    let adv = |c: char, line: &mut u64, col: &mut u64| {
        if c == '\n' {
            *line += 1;
            *col = 0;
        } else {
            *col += 1;
        }
    };
    while i < cs.len() {
        let c = cs[i];
        if c.is_whitespace() {
            adv(c, &mut line, &mut col);
            i += 1;
            continue;
        }
        let start = i;
        let (sl, sc) = (line, col);
        let mut j = i;
        if c == '"' || c == '\'' || (c == '/' && i + 1 < cs.len() && cs[i + 1] != '/' && cs[i + 1] != '*') {
            j += 1;
            while j < cs.len() && cs[j] != c {
                if cs[j] == '\\' {
                    j += 1;
                }
                j += 1;
            }
            j = (j + 1).min(cs.len());
        } else if c == '/' && i + 1 < cs.len() && cs[i + 1] == '/' {
            while j < cs.len() && cs[j] != '\n' {
                j += 1;
            }
        } else if c == '/' && i + 1 < cs.len() && cs[i + 1] == '*' {
            j += 2;
            while j + 1 < cs.len() && !(cs[j] == '*' && cs[j + 1] == '/') {
                j += 1;
            }
            j = (j + 2).min(cs.len());
        } else if c == '%' {
            j += 1;
            while j < cs.len() && (cs[j].is_alphanumeric() || cs[j] == '_' || cs[j] == '%') {
                j += 1;
            }
        } else if c.is_alphanumeric() || c == '_' {
            while j < cs.len() && (cs[j].is_alphanumeric() || cs[j] == '_') {
                j += 1;
            }
        } else if (c == ':' && i + 1 < cs.len() && cs[i + 1] == ':') || (c == '?' && i + 1 < cs.len() && (cs[i + 1] == '=' || cs[i + 1] == '!')) {
            j += 2;
        } else {
            j += 1;
        }
        for k in start..j.min(cs.len()) {
            adv(cs[k], &mut line, &mut col);
        }
        i = j.min(cs.len()).max(start + 1);
        out.push((sl, sc, cs[start..i].iter().collect()));
    }
    out
}

pub fn comments_of(text: &str) -> Vec<String> {
    lex(text).into_iter().filter(|t| t.starts_with("//") || t.starts_with("/*")).map(|t| t.trim_end().to_string()).collect()
}

/// Insert comments at random token boundaries (never inside a token). Returns the new text.
pub fn sprinkle_comments(text: &str, rng: &mut Rng, density_pct: usize) -> String {
    let toks = lex(text);
    let mut out = String::new();
    let mut n = 0;
    let mut emit = |out: &mut String, rng: &mut Rng| {
        n += 1;
        match rng.below(3) {
            0 => out.push_str(&format!(" // line comment {n}\n")),
            1 => out.push_str(&format!(" /* block comment {n} */ ")),
            _ => out.push_str(&format!("\n/* multi\n   line {n} */\n")),
        }
    };
    if rng.chance(density_pct, 100) {
        emit(&mut out, rng);
    }
    for (i, t) in toks.iter().enumerate() {
        if i > 0 {
            out.push(' ');
        }
        out.push_str(t);
        if t.starts_with("//") {
            out.push('\n');
        }
        if t == ";" || t == "%%" || t == "}" {
            out.push('\n');
        }
        if rng.chance(density_pct, 100) {
            emit(&mut out, rng);
        }
    }
    out.push('\n');
    out
}

/// Comments only at "ordinary" places: file start, before a declaration, before a production,
/// before an alternative bar at top level, after a production's semicolon, file end.
/// Returns (text, number of comments).
pub fn sprinkle_comments_ordinary(text: &str, rng: &mut Rng, density_pct: usize) -> String {
    let toks = lex(text);
    let mut out = String::new();
    let mut n = 0;
    let mut depth = 0i32;
    let mut in_grammar = false;
    let mut emit = |out: &mut String, rng: &mut Rng, own_line: bool| {
        n += 1;
        if own_line {
            match rng.below(3) {
                0 => out.push_str(&format!("\n// line comment {n}\n")),
                1 => out.push_str(&format!("\n/* block comment {n} */\n")),
                _ => out.push_str(&format!("\n/* multi\n   line {n} */\n")),
            }
        } else {
            match rng.below(2) {
                0 => out.push_str(&format!(" // line comment {n}\n")),
                _ => out.push_str(&format!(" /* block comment {n} */ ")),
            }
        }
    };
    if rng.chance(density_pct, 100) {
        emit(&mut out, rng, true);
    }
    for (i, t) in toks.iter().enumerate() {
        let next_is_colon = toks.get(i + 1).map(|x| x == ":").unwrap_or(false);
        // before a declaration / before a production
        let decl_start = t.starts_with('%') && t != "%%" && depth == 0 && !matches!(t.as_str(), "%enter" | "%push" | "%pop");
        let prod_start = in_grammar && depth == 0 && next_is_colon && i > 0 && toks[i - 1] == ";";
        if (decl_start || prod_start) && rng.chance(density_pct, 100) {
            emit(&mut out, rng, true);
        }
        if in_grammar && depth == 0 && t == "|" && rng.chance(density_pct, 100) {
            emit(&mut out, rng, false);
        }
        if i > 0 {
            out.push(' ');
        }
        out.push_str(t);
        match t.as_str() {
            "(" | "[" | "{" | "<" => depth += 1,
            ")" | "]" | "}" | ">" => depth -= 1,
            "%%" => {
                in_grammar = true;
                depth = 0;
                out.push('\n');
            }
            ";" => {
                if rng.chance(density_pct, 100) {
                    emit(&mut out, rng, false);
                }
                out.push('\n');
            }
            _ => {}
        }
        if t.starts_with("//") {
            out.push('\n');
        }
    }
    if rng.chance(density_pct, 100) {
        emit(&mut out, rng, true);
    }
    out.push('\n');
    out
}
