//! G-par-text: token-level and byte-level mutations of PAR texts, token soup.

use crate::prng::Rng;

/// Mini lexer for PAR text (strings, raw strings, regexes, %-keywords, identifiers, comments,
/// punctuation). Good enough to cut a text at token boundaries; never fails.
pub fn lex(text: &str) -> Vec<String> {
    let cs: Vec<char> = text.chars().collect();
    let mut out = vec![];
    let mut i = 0;
    while i < cs.len() {
        let c = cs[i];
        if c.is_whitespace() {
            i += 1;
            continue;
        }
        let start = i;
        if c == '"' || c == '\'' || (c == '/' && i + 1 < cs.len() && cs[i + 1] != '/' && cs[i + 1] != '*') {
            i += 1;
            while i < cs.len() && cs[i] != c {
                if cs[i] == '\\' {
                    i += 1;
                }
                i += 1;
            }
            i = (i + 1).min(cs.len());
        } else if c == '/' && i + 1 < cs.len() && cs[i + 1] == '/' {
            while i < cs.len() && cs[i] != '\n' {
                i += 1;
            }
        } else if c == '/' && i + 1 < cs.len() && cs[i + 1] == '*' {
            i += 2;
            while i + 1 < cs.len() && !(cs[i] == '*' && cs[i + 1] == '/') {
                i += 1;
            }
            i = (i + 2).min(cs.len());
        } else if c == '%' {
            i += 1;
            while i < cs.len() && (cs[i].is_alphanumeric() || cs[i] == '_' || cs[i] == '%') {
                i += 1;
            }
        } else if c.is_alphanumeric() || c == '_' {
            while i < cs.len() && (cs[i].is_alphanumeric() || cs[i] == '_') {
                i += 1;
            }
        } else if (c == ':' && i + 1 < cs.len() && cs[i + 1] == ':') || (c == '?' && i + 1 < cs.len() && (cs[i + 1] == '=' || cs[i + 1] == '!')) {
            i += 2;
        } else {
            i += 1;
        }
        out.push(cs[start..i].iter().collect());
    }
    out
}

pub const VOCAB: [&str; 60] = [
    "%start", "%title", "%comment", "%grammar_type", "%line_comment", "%block_comment", "%auto_newline_off", "%auto_ws_off",
    "%skip", "%on", "%enter", "%push", "%pop", "%allow_unmatched", "%user_type", "%nt_type", "%t_type", "%scanner", "%%", "::",
    ":", ";", "|", "<", ">", "(", ")", "[", "]", "{", "}", ",", "@", "^", "=", "?=", "?!", "S", "A", "B", "INITIAL", "M1", "T0",
    "\"a\"", "'b'", "/c/", "'ll(k)'", "'lalr(1)'", "\"//\"", "'/*'", "'*/'", "\"x\\\"y\"", "// c\n", "/* c */", "x_1", "Self", "crate", "my", "\"[a-z]+\"", "'%'",
];

pub fn join(tokens: &[String]) -> String {
    let mut s = String::new();
    for (i, t) in tokens.iter().enumerate() {
        if i > 0 {
            s.push(' ');
        }
        s.push_str(t);
        if t.starts_with("//") && !t.ends_with('\n') {
            s.push('\n');
        }
    }
    s
}

/// one token-level mutation: delete / insert / replace / swap / duplicate
pub fn mutate_tokens(tokens: &[String], rng: &mut Rng) -> Vec<String> {
    let mut v = tokens.to_vec();
    let n = rng.range(1, 2);
    for _ in 0..n {
        match rng.below(5) {
            0 if !v.is_empty() => {
                let i = rng.below(v.len());
                v.remove(i);
            }
            1 => {
                let i = rng.below(v.len() + 1);
                v.insert(i, rng.pick(&VOCAB).to_string());
            }
            2 if !v.is_empty() => {
                let i = rng.below(v.len());
                v[i] = rng.pick(&VOCAB).to_string();
            }
            3 if v.len() >= 2 => {
                let i = rng.below(v.len() - 1);
                v.swap(i, i + 1);
            }
            _ if !v.is_empty() => {
                let i = rng.below(v.len());
                let x = v[i].clone();
                v.insert(i, x);
            }
            _ => v.push(rng.pick(&VOCAB).to_string()),
        }
    }
    v
}

pub fn soup(rng: &mut Rng, max: usize) -> String {
    let n = rng.range(0, max);
    let v: Vec<String> = (0..n).map(|_| rng.pick(&VOCAB).to_string()).collect();
    join(&v)
}

pub fn mutate_bytes(text: &str, rng: &mut Rng) -> String {
    let mut b = text.as_bytes().to_vec();
    for _ in 0..rng.range(1, 4) {
        match rng.below(5) {
            0 if !b.is_empty() => {
                let i = rng.below(b.len());
                b.remove(i);
            }
            1 => {
                let i = rng.below(b.len() + 1);
                b.insert(i, *rng.pick(b"%'\"/\\{}[]()<>|;:@^=?!,a0 \n\t\x00\xff\xc3"));
            }
            2 if !b.is_empty() => {
                let i = rng.below(b.len());
                b[i] = rng.below(256) as u8;
            }
            3 if !b.is_empty() => {
                let i = rng.below(b.len());
                b.truncate(i);
            }
            _ if b.len() > 4 => {
                let i = rng.below(b.len() - 2);
                let j = rng.range(i + 1, (i + 8).min(b.len()));
                let seg: Vec<u8> = b[i..j].to_vec();
                let k = rng.below(b.len());
                for (o, x) in seg.into_iter().enumerate() {
                    b.insert(k + o, x);
                }
            }
            _ => {}
        }
    }
    String::from_utf8_lossy(&b).into_owned()
}
