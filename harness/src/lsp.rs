//! Minimal LSP client over stdio for driving the real parol-ls binary black-box.
//! Every message in both directions is recorded with a sequence number and a monotonic time.

use serde_json::{Value, json};
use std::io::{BufRead, BufReader, Read, Write};
use std::process::{Child, ChildStdin, Command, Stdio};
use std::sync::mpsc::{Receiver, RecvTimeoutError, channel};
use std::time::{Duration, Instant};

#[derive(Debug, Clone, PartialEq, Eq)]
pub enum Dir {
    ToServer,
    FromServer,
}

#[derive(Debug)]
pub enum LspErr {
    /// no answer within the timeout; the request stays open
    Timeout,
    /// server process ended (EOF on its stdout)
    Exited(String),
}

pub struct Lsp {
    child: Child,
    stdin: ChildStdin,
    rx: Receiver<Option<Value>>,
    next_id: i64,
    pub log: Vec<(u64, u128, Dir, Value)>,
    seq: u64,
    t0: Instant,
    pub stderr_path: String,
    /// notifications received while waiting for a response
    pub pending: Vec<Value>,
    dead: bool,
}

static CHILD_PIDS: std::sync::Mutex<Vec<u32>> = std::sync::Mutex::new(Vec::new());

/// Kill every language-server process this harness process has started (called before exit).
pub fn kill_all_children() {
    if let Ok(v) = CHILD_PIDS.lock() {
        for pid in v.iter() {
            let _ = Command::new("kill").args(["-9", &pid.to_string()]).stdout(Stdio::null()).stderr(Stdio::null()).status();
        }
    }
}

pub fn register_child(pid: u32) {
    if let Ok(mut v) = CHILD_PIDS.lock() {
        v.push(pid);
    }
}

pub fn parol_ls_path() -> String {
    std::env::var("PV_PAROL_LS").unwrap_or_else(|_| "/verif/target/ls/debug/parol-ls".to_string())
}

impl Lsp {
    pub fn start(lookahead: usize, init_options: Value, tag: &str) -> Result<Lsp, String> {
        let stderr_path = format!("/verif/work/lsp-{}-{}.stderr", std::process::id(), tag);
        let errf = std::fs::File::create(&stderr_path).map_err(|e| e.to_string())?;
        let mut child = Command::new(parol_ls_path())
            .args(["--stdio", "--lookahead", &lookahead.to_string()])
            .stdin(Stdio::piped())
            .stdout(Stdio::piped())
            .stderr(Stdio::from(errf))
            .env_remove("PAROL_LS_VERIF_BATCH")
            .spawn()
            .map_err(|e| format!("cannot start parol-ls: {e}"))?;
        register_child(child.id());
        let stdin = child.stdin.take().unwrap();
        let stdout = child.stdout.take().unwrap();
        let (tx, rx) = channel::<Option<Value>>();
        std::thread::spawn(move || {
            let mut r = BufReader::new(stdout);
            loop {
                let mut len = 0usize;
                loop {
                    let mut line = String::new();
                    match r.read_line(&mut line) {
                        Ok(0) | Err(_) => {
                            let _ = tx.send(None);
                            return;
                        }
                        Ok(_) => {}
                    }
                    let l = line.trim();
                    if l.is_empty() {
                        break;
                    }
                    if let Some(v) = l.strip_prefix("Content-Length:") {
                        len = v.trim().parse().unwrap_or(0);
                    }
                }
                let mut buf = vec![0u8; len];
                if r.read_exact(&mut buf).is_err() {
                    let _ = tx.send(None);
                    return;
                }
                match serde_json::from_slice::<Value>(&buf) {
                    Ok(v) => {
                        if tx.send(Some(v)).is_err() {
                            return;
                        }
                    }
                    Err(_) => {}
                }
            }
        });
        let mut me = Lsp { child, stdin, rx, next_id: 1, log: vec![], seq: 0, t0: Instant::now(), stderr_path, pending: vec![], dead: false };
        let init = me.request("initialize", json!({"processId": null, "rootUri": null, "capabilities": {}, "initializationOptions": init_options}), 20000);
        match init {
            Ok(_) => {}
            Err(e) => return Err(format!("initialize failed: {e:?}")),
        }
        me.notify("initialized", json!({}));
        Ok(me)
    }

    fn record(&mut self, d: Dir, v: &Value) {
        self.seq += 1;
        self.log.push((self.seq, self.t0.elapsed().as_micros(), d, v.clone()));
    }

    fn send(&mut self, v: &Value) -> bool {
        let body = v.to_string();
        self.record(Dir::ToServer, v);
        let ok = self.stdin.write_all(format!("Content-Length: {}\r\n\r\n{}", body.len(), body).as_bytes()).is_ok() && self.stdin.flush().is_ok();
        if !ok {
            self.dead = true;
        }
        ok
    }

    pub fn notify(&mut self, method: &str, params: Value) -> bool {
        self.send(&json!({"jsonrpc": "2.0", "method": method, "params": params}))
    }

    /// Returns the `result` (or `{"error":..}`) of the response.
    pub fn request(&mut self, method: &str, params: Value, timeout_ms: u64) -> Result<Value, LspErr> {
        let id = self.next_id;
        self.next_id += 1;
        if !self.send(&json!({"jsonrpc": "2.0", "id": id, "method": method, "params": params})) {
            return Err(LspErr::Exited(self.crash_info()));
        }
        let deadline = Instant::now() + Duration::from_millis(timeout_ms);
        loop {
            let left = deadline.saturating_duration_since(Instant::now());
            match self.rx.recv_timeout(left) {
                Ok(Some(v)) => {
                    self.record(Dir::FromServer, &v);
                    if v.get("id").and_then(|i| i.as_i64()) == Some(id) && v.get("method").is_none() {
                        if let Some(e) = v.get("error") {
                            return Ok(json!({"error": e}));
                        }
                        return Ok(v.get("result").cloned().unwrap_or(Value::Null));
                    }
                    if v.get("method").is_some() && v.get("id").is_some() {
                        // server -> client request: answer with null
                        let rid = v["id"].clone();
                        let _ = self.send(&json!({"jsonrpc": "2.0", "id": rid, "result": null}));
                    } else {
                        self.pending.push(v);
                    }
                }
                Ok(None) | Err(RecvTimeoutError::Disconnected) => {
                    self.dead = true;
                    return Err(LspErr::Exited(self.crash_info()));
                }
                Err(RecvTimeoutError::Timeout) => return Err(LspErr::Timeout),
            }
        }
    }

    /// Next message from the server (notifications), waiting at most `timeout_ms`.
    pub fn next_message(&mut self, timeout_ms: u64) -> Result<Option<Value>, LspErr> {
        if !self.pending.is_empty() {
            return Ok(Some(self.pending.remove(0)));
        }
        match self.rx.recv_timeout(Duration::from_millis(timeout_ms)) {
            Ok(Some(v)) => {
                self.record(Dir::FromServer, &v);
                if v.get("method").is_some() && v.get("id").is_some() {
                    let rid = v["id"].clone();
                    let _ = self.send(&json!({"jsonrpc": "2.0", "id": rid, "result": null}));
                    return Ok(None);
                }
                Ok(Some(v))
            }
            Ok(None) | Err(RecvTimeoutError::Disconnected) => {
                self.dead = true;
                Err(LspErr::Exited(self.crash_info()))
            }
            Err(RecvTimeoutError::Timeout) => Ok(None),
        }
    }

    /// Collect messages until `quiet_ms` pass without a new one (or `max_ms` in total).
    pub fn drain(&mut self, quiet_ms: u64, max_ms: u64) -> Result<Vec<Value>, LspErr> {
        let mut out = vec![];
        let end = Instant::now() + Duration::from_millis(max_ms);
        loop {
            match self.next_message(quiet_ms)? {
                Some(v) => out.push(v),
                None => {
                    if self.pending.is_empty() {
                        break;
                    }
                }
            }
            if Instant::now() > end {
                break;
            }
        }
        Ok(out)
    }

    pub fn alive(&mut self) -> bool {
        if self.dead {
            return false;
        }
        matches!(self.child.try_wait(), Ok(None))
    }

    pub fn crash_info(&mut self) -> String {
        let code = self.child.try_wait().ok().flatten().map(|s| format!("{s}")).unwrap_or_else(|| "running".into());
        let err = std::fs::read_to_string(&self.stderr_path).unwrap_or_default();
        let panic_line = err.lines().rev().find(|l| l.contains("panicked at")).unwrap_or("").to_string();
        let after: String = err.lines().skip_while(|l| !l.contains("panicked at")).skip(1).take(2).collect::<Vec<_>>().join(" | ");
        format!("exit: {code}; {panic_line} {after}")
    }

    pub fn open(&mut self, uri: &str, version: i64, text: &str) -> bool {
        self.notify("textDocument/didOpen", json!({"textDocument": {"uri": uri, "languageId": "parol", "version": version, "text": text}}))
    }
    pub fn change(&mut self, uri: &str, version: i64, text: &str) -> bool {
        self.notify("textDocument/didChange", json!({"textDocument": {"uri": uri, "version": version}, "contentChanges": [{"text": text}]}))
    }
    pub fn close(&mut self, uri: &str) -> bool {
        self.notify("textDocument/didClose", json!({"textDocument": {"uri": uri}}))
    }

    pub fn shutdown(mut self) {
        let _ = self.request("shutdown", Value::Null, 2000);
        let _ = self.notify("exit", Value::Null);
        let t = Instant::now();
        while t.elapsed() < Duration::from_millis(1500) {
            if let Ok(Some(_)) = self.child.try_wait() {
                break;
            }
            std::thread::sleep(Duration::from_millis(20));
        }
        let _ = self.child.kill();
        let _ = self.child.wait();
        let _ = std::fs::remove_file(&self.stderr_path);
    }
}

impl Drop for Lsp {
    fn drop(&mut self) {
        let _ = self.child.kill();
        let _ = self.child.wait();
    }
}

/// Apply LSP TextEdits (positions in UTF-16 code units per the protocol; the server works with
/// chars - both are tried by the callers' workloads). Returns None if a range is outside the text.
/// (line, character) -> byte offset; `character` counts chars (the server's convention).
/// None if the position is outside the text (past the end of its line or past the last line).
pub fn pos_to_offset_chars(text: &str, line: u64, ch: u64) -> Option<usize> {
    let mut off = 0usize;
    for (cur, l) in text.split_inclusive('\n').enumerate() {
        if cur as u64 == line {
            let content = l.trim_end_matches(['\n', '\r']);
            let n = content.chars().count() as u64;
            if ch > n {
                return None;
            }
            return Some(off + content.char_indices().nth(ch as usize).map(|(b, _)| b).unwrap_or(content.len()));
        }
        off += l.len();
    }
    // the (empty) line after a trailing newline
    let lines = text.split_inclusive('\n').count() as u64;
    if line == lines && (text.ends_with('\n') || text.is_empty()) && ch == 0 {
        return Some(text.len());
    }
    None
}

pub fn apply_edits(text: &str, edits: &[Value]) -> Result<String, String> {
    let mut spans: Vec<(usize, usize, String)> = vec![];
    for e in edits {
        let r = &e["range"];
        let s = pos_to_offset_chars(text, r["start"]["line"].as_u64().unwrap_or(0), r["start"]["character"].as_u64().unwrap_or(0));
        let en = pos_to_offset_chars(text, r["end"]["line"].as_u64().unwrap_or(0), r["end"]["character"].as_u64().unwrap_or(0));
        // the end position of a whole-document edit may be one past the last line
        let en = match en {
            Some(x) => Some(x),
            None => {
                let lines = text.split_inclusive('\n').count() as u64;
                let el = r["end"]["line"].as_u64().unwrap_or(0);
                if el >= lines || (el + 1 == lines && !text.ends_with('\n')) { Some(text.len()) } else { None }
            }
        };
        match (s, en) {
            (Some(a), Some(b)) if a <= b => spans.push((a, b, e["newText"].as_str().unwrap_or("").to_string())),
            _ => return Err(format!("edit range {} is outside the text", r)),
        }
    }
    spans.sort_by_key(|s| (s.0, s.1));
    for w in spans.windows(2) {
        if w[0].1 > w[1].0 {
            return Err("overlapping edits".into());
        }
    }
    let mut out = String::new();
    let mut at = 0;
    for (a, b, t) in spans {
        out.push_str(&text[at..a]);
        out.push_str(&t);
        at = b;
    }
    out.push_str(&text[at..]);
    Ok(out)
}
